/-
  C19 — property theorems.  Every `theorem` in this file is a proof obligation of the check
  (`./check C19` lists them and runs `#print axioms` on each).  Helper lemmas: IcingaProofs/C19/Lemmas.lean;
  the generated tables: IcingaProofs/Gen/SandboxGuards.lean via IcingaProofs/C19/Tables.lean.

  F-C19a (`SetConstExpression::DoEvaluate` had no sandbox guard) was repaired in /repo by 03364e3; the
  full-strength theorems over the generated table (`all_mutating_nodes_guarded`,
  `sandbox_noninterference_pinned`) are in force.  The block `BEGIN F-C19 known (disabled)` keeps the
  partial result and the counterexample that held on the unrepaired tree for the record
  (`gen/c19_switch.py known|fixed` swaps the two blocks); `setconst_guard_is_necessary` restates the
  counterexample about the generated table with that one guard taken out again.

  F-C19c (`IcingaApplication()` in a sandboxed frame cleared `Application::m_Instance`: the constructor call runs
  before the whitelist test, the dropped temporary's destructor reset the singleton) was repaired in /repo by ac7cac3.
  The model keeps the mechanism (`Cfg.ctorEffect`); whether the destructor clears the singleton unconditionally is
  GENERATED from application.cpp on every run (`SandboxGuards.appDtorClearsSingleton`, now false:
  `application_dtor_keeps_singleton`), so `sandbox_noninterference_pinned` and `driver_model_trace_meets_spec` hold at
  the generated tables as they are; `application_dtor_guard_is_necessary` restates the pre-fix counterexample.
-/
import IcingaProofs.C19.Lemmas
import IcingaProofs.C19.Computational
import IcingaProofs.C19.Tables
import IcingaModel.C19.Spec

namespace Icinga.C19
open Icinga.Gen

/-! ## The interpreter, for every guard table and every table of natives -/

/-- **sandbox_noninterference.**  For every guard table in which each mutating node kind is guarded,
    with the call check in place, every native that is flagged side-effect free actually leaving the
    protected state alone, `Reference#set` (which writes through a reference) not flagged so, and no type whose
    construction has a process-wide effect (`ctorEffect`: constructor calls run BEFORE the whitelist test,
    expression.cpp:463-474 — F-C19c, repaired by ac7cac3): for every program, every environment and every amount of fuel, evaluating
    the program sandboxed ends — with a value or with an error — in an environment whose globals,
    constants, config objects, files and registries are exactly the initial ones. -/
theorem sandbox_noninterference (cfg : Cfg)
    (hg : ∀ k, mutating k = true → cfg.guard k = true) (hct : ∀ t, cfg.ctorEffect t = false) (hcc : cfg.callCheck = true) (hcb : CbChecks cfg)
    (hp : SafeNativesPure cfg) (hset : RefSetUnsafe cfg) (fuel : Nat) (e : Expr) (env : Env) :
    (eval cfg true fuel e env).2.prot = env.prot :=
  (eval_pres (R := protEq) cfg hcc hcb (logOk_protEq cfg) frameOk_protEq (invokeOk_protEq cfg hp hset)
    (readOk_protEq cfg _) (readOk_protEq cfg _) (readOk_protEq cfg _) (Or.inl ⟨hg, hct⟩) fuel e).h env

/-- **sandbox_only_safe_calls.**  With the call check in place, whatever the guard table says: every
    function that a sandboxed evaluation actually invokes (ghost call log) is a native flagged
    side-effect free — never a non-safe native, never a script function. -/
theorem sandbox_only_safe_calls (cfg : Cfg) (hcc : cfg.callCheck = true) (hcb : CbChecks cfg) (fuel : Nat) (e : Expr) (env : Env) :
    ∀ c ∈ (eval cfg true fuel e env).2.calls, c ∈ env.calls ∨ safeCallee cfg c = true :=
  (eval_pres (R := callsOk cfg) cfg hcc hcb (logOk_callsOk cfg) (frameOk_callsOk cfg) (invokeOk_callsOk cfg)
    (readOk_callsOk cfg _) (readOk_callsOk cfg _) (readOk_callsOk cfg _)
    (Or.inr (protOk_callsOk cfg)) fuel e).h env

/-- **unsafe_native_call_rejected.**  Calling a native that is not flagged side-effect free is refused
    with the sandbox error before any argument is evaluated; nothing at all changes. -/
theorem unsafe_native_call_rejected (cfg : Cfg) (hcc : cfg.callCheck = true) (name : String) (f : Native)
    (hn : cfg.native name = some f) (hs : f.safe = false) (args : List Expr) (n : Nat) (env : Env) :
    outcomeOf (eval cfg true (n + 2) (.call (.lit (.fn name)) args) env).1 = .sandbox ∧
    (eval cfg true (n + 2) (.call (.lit (.fn name)) args) env).2 = env := by
  by_cases hg : cfg.guard "FunctionCallExpression" = true
  · simp [eval, guardCheck, Expr.kind, hg, bind, M.bind, M.fail, outcomeOf]
  · by_cases hl : cfg.guard "LiteralExpression" = true
    · simp [eval, guardCheck, Expr.kind, hg, hl, bind, M.bind, M.fail, outcomeOf, evalNode, chk, pure, M.pure]
    · simp [eval, guardCheck, Expr.kind, hg, hl, bind, M.bind, M.fail, outcomeOf, evalNode, chk, pure, M.pure,
        callValue, hn, hs, hcc]

/-- **sandbox_hidden_fields** (object.cpp:106-126).  With the no_user_view check in place, reading a
    hidden field of a live object in a sandboxed frame yields the "not allowed in sandbox mode" error and
    never the value — through `VMOps::GetField`, hence through `o.f`, `o["f"]` and method-call lookup. -/
theorem sandbox_hidden_fields (cfg : Cfg) (hf : cfg.fieldCheck = true) (name field : String) (o : Obj) (v : Value)
    (env : Env) (ho : lookup name env.prot.objects = some o) (hv : lookup field o.attrs = some v)
    (hh : cfg.hidden o.type field = true) :
    getField cfg true (.obj name) field env = (.error (.hidden o.type field), env) := by
  simp [getField, bind, M.bind, M.get, ho, hv, hf, hh, M.fail]

/-- The same at the level of the indexer node: whatever sub-expressions produce the object and the
    field name, `a[b]` / `a.b` is an error. -/
theorem sandbox_hidden_fields_indexer (cfg : Cfg) (hf : cfg.fieldCheck = true) (n : Nat) (oe fe : Expr)
    (name field : String) (o : Obj) (v : Value) (env env1 env2 : Env)
    (h1 : eval cfg true n oe env = (.ok (.obj name, .ok), env1))
    (h2 : eval cfg true n fe env1 = (.ok (.str field, .ok), env2))
    (ho : lookup name env2.prot.objects = some o) (hv : lookup field o.attrs = some v)
    (hh : cfg.hidden o.type field = true) :
    ∃ err, (eval cfg true (n + 1) (.index oe fe) env).1 = .error err ∧ outcomeOf (.error err : Except Err Out) ≠ .ok := by
  by_cases hg : cfg.guard "IndexerExpression" = true
  · exact ⟨.sandbox "IndexerExpression", by simp [eval, guardCheck, Expr.kind, hg, bind, M.bind, M.fail], by simp [outcomeOf]⟩
  · refine ⟨.hidden o.type field, ?_, by simp [outcomeOf]⟩
    have hgf := sandbox_hidden_fields cfg hf name field o v env2 ho hv hh
    simp [eval, guardCheck, Expr.kind, hg, bind, M.bind, evalNode, chk, pure, M.pure, h1, h2, Value.toStr, hgf]

/-- **sandbox_hidden_fields_reference** (reference.cpp:20-23).  A read THROUGH a reference — `*(&o.f)`
    (DerefExpression) and `(&o.f).get()` (Reference#get) both end in `refRead` — obeys the same
    no_user_view rule as the direct read, provided `Reference::Get` passes `sandboxed = true`. -/
theorem sandbox_hidden_fields_reference (cfg : Cfg) (hf : cfg.fieldCheck = true) (hr : cfg.refGetSandboxed = true)
    (name field : String) (o : Obj) (v : Value) (env : Env)
    (ho : lookup name env.prot.objects = some o) (hv : lookup field o.attrs = some v)
    (hh : cfg.hidden o.type field = true) :
    refRead cfg (.refr (.obj name) field) env = (.error (.hidden o.type field), env) := by
  simp only [refRead, RefParent.toValue, hr]
  exact sandbox_hidden_fields cfg hf name field o v env ho hv hh

/-- … at the level of whole programs: `*(&o.f)` on a hidden field of a live object is an error. -/
theorem sandbox_hidden_fields_deref (cfg : Cfg) (hf : cfg.fieldCheck = true) (hr : cfg.refGetSandboxed = true)
    (hng : ∀ k, k ∈ ["DerefExpression", "RefExpression", "LiteralExpression"] → cfg.guard k = false)
    (name field : String) (o : Obj) (v : Value) (env : Env) (n : Nat)
    (ho : lookup name env.prot.objects = some o) (hv : lookup field o.attrs = some v)
    (hh : cfg.hidden o.type field = true) :
    (eval cfg true (n + 3) (.deref (.ref (.index (.lit (.obj name)) (.lit (.str field))))) env).1
      = .error (.hidden o.type field) := by
  have h1 := hng "DerefExpression" (by simp)
  have h2 := hng "RefExpression" (by simp)
  have h3 := hng "LiteralExpression" (by simp)
  have hgf := sandbox_hidden_fields_reference cfg hf hr name field o v env ho hv hh
  simp [eval, guardCheck, Expr.kind, h1, h2, h3, bind, M.bind, evalNode, chk, pure, M.pure, Value.toStr, hgf]

/-- **sandbox_hidden_fields_import** (vmops.hpp:43-53).  After `using <object>` a BARE identifier is looked up in
    the imported object; that read goes through the same no_user_view rule, provided `FindVarImport` hands the
    frame's sandbox flag to `GetField`. -/
theorem sandbox_hidden_fields_import (cfg : Cfg) (hf : cfg.fieldCheck = true) (hi : cfg.importSandboxed = true)
    (hng : ∀ k, k ∈ ["VariableExpression", "LiteralExpression"] → cfg.guard k = false)
    (name field : String) (o : Obj) (v : Value) (env : Env) (n : Nat) (rest : List Expr)
    (hl : lookup field env.locals = none)
    (ho : lookup name env.prot.objects = some o) (hv : lookup field o.attrs = some v)
    (hh : cfg.hidden o.type field = true) :
    (eval cfg true (n + 2) (.varIn (.lit (.obj name) :: rest) field) env).1 = .error (.hidden o.type field) := by
  have h1 := hng "VariableExpression" (by simp)
  have h2 := hng "LiteralExpression" (by simp)
  have hgf := sandbox_hidden_fields cfg hf name field o v env ho hv hh
  simp [eval, guardCheck, Expr.kind, h1, h2, bind, M.bind, M.get, evalNode, findImport, chk, pure, M.pure, hl,
    hasOwnField, ho, hv, hi, hgf]

/-- **model_obs_meets_spec.**  Under the hypotheses of the noninterference theorem every observation the
    model can produce for a sandboxed program satisfies the specification predicate that the driver
    evaluates on the implementation's observations. -/
theorem model_obs_meets_spec (cfg : Cfg)
    (hg : ∀ k, mutating k = true → cfg.guard k = true) (hct : ∀ t, cfg.ctorEffect t = false) (hcc : cfg.callCheck = true) (hcb : CbChecks cfg)
    (hp : SafeNativesPure cfg) (hset : RefSetUnsafe cfg) (fuel : Nat) (e : Expr) (env : Env) :
    specStep (modelObs cfg .program false fuel e env) = none := by
  have h := sandbox_noninterference cfg hg hct hcc hcb hp hset fuel e env
  have hc := sandbox_only_safe_calls cfg hcc hcb fuel e env
  simp [specStep, modelObs, observe, h]
  intro x hx hnx
  rcases hc x hx with h' | h'
  · exact absurd h' hnx
  · exact h'

/-- … and for the call of a native that is not flagged safe (the `N` lines of the harness). -/
theorem model_native_obs_meets_spec (cfg : Cfg) (hcc : cfg.callCheck = true) (name : String) (f : Native)
    (hn : cfg.native name = some f) (hs : f.safe = false) (args : List Expr) (n : Nat) (env : Env) :
    specStep (modelObs cfg .native false (n + 2) (.call (.lit (.fn name)) args) env) = none := by
  obtain ⟨h1, h2⟩ := unsafe_native_call_rejected cfg hcc name f hn hs args n env
  simp [specStep, modelObs, observe, h1, h2]
  intro x hx hnx
  exact absurd hx hnx

/-! ## The event-stream call site (several subscribers' filters on one event) and whole traces -/

/-- **push_event_noninterference** (eventqueue.cpp:250-275).  Handing one event to ANY list of subscribers' filters —
    whatever each of them is, whether it yields a value or raises, in whatever order — leaves the protected state
    exactly as it was: each filter runs in a frame of its own that is sandboxed, errors are swallowed, nothing is
    rolled back and nothing needs to be. -/
theorem push_event_noninterference (cfg : Cfg)
    (hg : ∀ k, mutating k = true → cfg.guard k = true) (hct : ∀ t, cfg.ctorEffect t = false) (hcc : cfg.callCheck = true) (hcb : CbChecks cfg)
    (hp : SafeNativesPure cfg) (hset : RefSetUnsafe cfg) (fuel : Nat) :
    ∀ (filters : List Expr) (env : Env), (pushEvent cfg fuel filters env).2.prot = env.prot
  | [], env => rfl
  | f :: fs, env => by
    simp only [pushEvent]
    rw [push_event_noninterference cfg hg hct hcc hcb hp hset fuel fs]
    exact sandbox_noninterference cfg hg hct hcc hcb hp hset fuel f { env with locals := [] }

/-- **push_event_only_safe_calls.**  … and every function invoked on the way is a native flagged side-effect free. -/
theorem push_event_only_safe_calls (cfg : Cfg) (hcc : cfg.callCheck = true) (hcb : CbChecks cfg) (fuel : Nat) :
    ∀ (filters : List Expr) (env : Env),
      ∀ c ∈ (pushEvent cfg fuel filters env).2.calls, c ∈ env.calls ∨ safeCallee cfg c = true
  | [], env => fun c hc => Or.inl hc
  | f :: fs, env => by
    intro c hc
    simp only [pushEvent] at hc
    rcases push_event_only_safe_calls cfg hcc hcb fuel fs _ c hc with h | h
    · exact sandbox_only_safe_calls cfg hcc hcb fuel f { env with locals := [] } c h
    · exact Or.inr h

/-- **push_event_delivers_only_on_value.**  A subscriber receives the event only if its own filter evaluated to a
    value (a filter that is refused or raises never matches). -/
theorem push_event_delivers_only_on_value (cfg : Cfg) (fuel : Nat) :
    ∀ (filters : List Expr) (env : Env), ∀ p ∈ (pushEvent cfg fuel filters env).1, p.1 = true → p.2 = .ok
  | [], _ => by simp [pushEvent]
  | f :: fs, env => by
    intro p hp hd
    simp only [pushEvent, List.mem_cons] at hp
    rcases hp with rfl | hp
    · revert hd
      cases h : (eval cfg true fuel f { env with locals := [] }).1 with
      | ok v => intro _; simp [outcomeOf]
      | error e => simp
    · exact push_event_delivers_only_on_value cfg fuel fs _ p hp hd

/-- **model_events_obs_meets_spec.**  The observation the model produces for one event and any list of filters
    satisfies the specification predicate (the `E` lines of the harness). -/
theorem model_events_obs_meets_spec (cfg : Cfg)
    (hg : ∀ k, mutating k = true → cfg.guard k = true) (hct : ∀ t, cfg.ctorEffect t = false) (hcc : cfg.callCheck = true) (hcb : CbChecks cfg)
    (hp : SafeNativesPure cfg) (hset : RefSetUnsafe cfg) (fuel : Nat) (filters : List Expr) (env : Env) :
    specStep (modelEventsObs cfg fuel filters env) = none := by
  have h := push_event_noninterference cfg hg hct hcc hcb hp hset fuel filters env
  have hc := push_event_only_safe_calls cfg hcc hcb fuel filters env
  have hd := push_event_delivers_only_on_value cfg fuel filters env
  have h1 : ((pushEvent cfg fuel filters env).2.calls.any fun c => !(env.calls.contains c) && !safeCallee cfg c) = false := by
    rw [List.any_eq_false]
    intro c hcm
    rcases hc c hcm with h' | h'
    · simp [h']
    · simp [h']
  have h2 : ((pushEvent cfg fuel filters env).1.any fun p => p.1 && p.2 != .ok) = false := by
    rw [List.any_eq_false]
    intro p hpm
    cases hp1 : p.1 with
    | false => simp
    | true => simp [hd p hpm hp1]
  simp only [specStep, modelEventsObs, h, h1, h2]
  simp

/-- One operation of a run, as the harness issues them: a program (P lines), the call of one native that is not
    flagged side-effect free (N lines of that kind), or one event handed to several filters (E lines) — each from an
    arbitrary start environment. -/
inductive Op
  | program (e : Expr) (env : Env)
  | unsafeNative (name : String) (args : List Expr) (env : Env)
  | events (filters : List Expr) (env : Env)

def Op.obs (cfg : Cfg) (fuel : Nat) : Op → Obs
  | .program e env => modelObs cfg .program false fuel e env
  | .unsafeNative name args env => modelObs cfg .native false (fuel + 2) (.call (.lit (.fn name)) args) env
  | .events filters env => modelEventsObs cfg fuel filters env

/-- **model_trace_meets_spec** — the whole-trace theorem.  For every configuration meeting the hypotheses of the
    noninterference theorem, every fuel and EVERY finite sequence of operations (programs, calls of natives without
    the flag, events with any number of filters; any start environments), the specification predicate accepts the
    trace of the model's observations. -/
theorem model_trace_meets_spec (cfg : Cfg)
    (hg : ∀ k, mutating k = true → cfg.guard k = true) (hct : ∀ t, cfg.ctorEffect t = false) (hcc : cfg.callCheck = true) (hcb : CbChecks cfg)
    (hp : SafeNativesPure cfg) (hset : RefSetUnsafe cfg) (fuel : Nat) :
    ∀ ops : List Op, (∀ op ∈ ops, ∀ name args env, op = .unsafeNative name args env →
        ∃ f, cfg.native name = some f ∧ f.safe = false) →
      specTrace (ops.map (Op.obs cfg fuel)) = none
  | [], _ => rfl
  | op :: rest, hops => by
    have ih := model_trace_meets_spec cfg hg hct hcc hcb hp hset fuel rest
      (fun o ho => hops o (List.mem_cons_of_mem _ ho))
    have hstep : specStep (Op.obs cfg fuel op) = none := by
      cases op with
      | program e env => exact model_obs_meets_spec cfg hg hct hcc hcb hp hset fuel e env
      | unsafeNative name args env =>
        obtain ⟨f, hn, hs⟩ := hops _ (List.mem_cons_self) name args env rfl
        exact model_native_obs_meets_spec cfg hcc name f hn hs args fuel env
      | events filters env => exact model_events_obs_meets_spec cfg hg hct hcc hcb hp hset fuel filters env
    simp only [List.map_cons, specTrace, hstep, ih]

/-! ## The tables generated from the source on this run -/

/-- The translator found exactly the node classes the model has a constructor for: a new `DoEvaluate`
    in expression.cpp without a model clause, or a vanished one, breaks this. -/
theorem translator_covers_model_kinds :
    (∀ k ∈ allKinds, (lookup k SandboxGuards.nodeGuards).isSome = true) ∧
    (∀ k ∈ SandboxGuards.nodeGuards.map Prod.fst, allKinds.contains k = true) := by decide

/-- Call check (expression.cpp:481-482), no_user_view check (object.cpp:119-124), inheritance of
    `Sandboxed` by nested frames (scriptframe.cpp:59-69) and script functions being created non-safe
    (vmops.hpp:115) are all present in the source. -/
theorem call_and_field_checks_present :
    SandboxGuards.callCheck = true ∧ SandboxGuards.fieldCheck = true ∧
    SandboxGuards.frameInherits = true ∧ SandboxGuards.scriptFunctionsUnsafe = true := by decide

/-- References: `Reference::Get` reads with the literal `sandboxed = true` (reference.cpp:22), the built-in
    writer `Reference#set` is registered NOT side-effect free (reference-script.cpp), and
    `IndexerExpression::GetReference` switches `init_dict` off in a sandboxed frame (expression.cpp:758-759). -/
theorem reference_checks_present :
    SandboxGuards.refGetSandboxed = true ∧ SandboxGuards.initDictOff = true ∧
    genSafe "Reference#set" = some false ∧ genSafe "Reference#get" = some true := by decide

/-- `VMOps::FindVarImport` reads an imported name through `GetField(…, frame.Sandboxed, …)` (vmops.hpp:43-53). -/
theorem import_reads_respect_sandbox : SandboxGuards.importReadSandboxed = true := by decide

/-- Every native that invokes a script-supplied function AND is flagged side-effect free tests the
    callback's own flag under `Sandboxed` first (array-script.cpp:83-212). -/
theorem safe_callback_invokers_checked :
    ∀ r ∈ SandboxGuards.callbackInvokers, r.2.1 = true → r.2.2 = true := by decide

/-- **callback_checks_present** (array-script.cpp:83-212).  Every higher-order native the model interprets
    (`Array#sort/map/reduce/filter/any/all`) is found by the translator and its body tests the callback's flag under
    `Sandboxed` before invoking it — so the hypothesis `CbChecks` of the interpreter theorems holds of the model configured
    by the generated tables. -/
theorem callback_checks_present (native : String → Option Native) (hidden : String → String → Bool) :
    CbChecks (genCfg native hidden) := by
  have h : ∀ n ∈ hofNames, genCbCheck n = true := by decide
  intro n hn
  exact h n hn

/-- No `GetReference` (the l-value path) can write in a sandboxed frame
    (IndexerExpression::GetReference forces `init_dict = false`, expression.cpp:758-759). -/
theorem reference_paths_cannot_write :
    ∀ r ∈ SandboxGuards.refGuards, r.2 = true := by decide

/-- The node kinds the property record names as guarded are guarded (defence in depth beyond the
    mutating ones: While, For, Import, ImportDefaultTemplates, Library). -/
theorem documented_guards_present : ∀ k ∈ documentedGuards, genGuard k = true := by decide

/- BEGIN F-C19 known (disabled)
/- Full statement (false on the pinned tree, see `setconst_counterexample`):

     theorem all_mutating_nodes_guarded : ∀ k, mutating k = true → genGuard k = true
-/

/-- **all_mutating_nodes_guarded_partial.**  Every mutating node kind except `SetConstExpression` is
    guarded in the table generated from the source. -/
theorem all_mutating_nodes_guarded_partial :
    ∀ k, mutating k = true → k ≠ "SetConstExpression" → genGuard k = true := by
  have h : ∀ k ∈ mutatingKinds, k ≠ "SetConstExpression" → genGuard k = true := by decide
  intro k hk
  exact h k (by simpa [mutating] using hk)

/-- **setconst_counterexample.**  With the tables as generated, noninterference is FALSE: `const X = 42`
    evaluated in a sandboxed frame from the empty environment defines the global constant `X`
    (expression.cpp:674-685 has no `frame.Sandboxed` test).  Replayed on the real evaluator by the check. -/
theorem setconst_counterexample :
    ¬ (∀ (fuel : Nat) (e : Expr) (env : Env),
        (eval (genCfg (fun _ => none) (fun _ _ => false)) true fuel e env).2.prot = env.prot) := by
  intro h
  have := h 2 (.setConst "X" (.lit (.num 42))) {}
  revert this
  decide

/-- **sandbox_noninterference_repaired.**  With the one missing guard added to the generated table (and
    nothing else assumed about it), noninterference holds for every program, environment and fuel and
    every table of natives whose safe-flagged entries are pure. -/
theorem sandbox_noninterference_repaired (native : String → Option Native) (hidden : String → String → Bool)
    (hp : SafeNativesPure { genCfg native hidden with guard := repairedGuard })
    (fuel : Nat) (e : Expr) (env : Env) :
    (eval { genCfg native hidden with guard := repairedGuard } true fuel e env).2.prot = env.prot := by
  apply sandbox_noninterference _ _ (fun _ => rfl) _ (callback_checks_present _ _) hp
  · intro k hk
    by_cases hks : k = "SetConstExpression"
    · simp [repairedGuard, hks]
    · simp [repairedGuard, all_mutating_nodes_guarded_partial k hk hks]
  · exact call_and_field_checks_present.1
END F-C19 known (disabled) -/

-- BEGIN F-C19 fixed
/-- **all_mutating_nodes_guarded.**  Every node kind whose clause writes protected state is guarded in
    the table generated from the source on this run. -/
theorem all_mutating_nodes_guarded : ∀ k, mutating k = true → genGuard k = true := by
  have h : ∀ k ∈ mutatingKinds, genGuard k = true := by decide
  intro k hk
  exact h k (by simpa [mutating] using hk)

/-- **application_dtor_keeps_singleton** (F-C19c, repaired by ac7cac3).  `Application::~Application` no longer
    resets `Application::m_Instance` outside a condition (read from lib/base/application.cpp on this run), so no
    type's constructor call — made before the whitelist test, expression.cpp:463-474 — has a process-wide effect
    in the model configured by the generated tables. -/
theorem application_dtor_keeps_singleton :
    SandboxGuards.appDtorClearsSingleton = false ∧ ∀ native hidden t, (genCfg native hidden).ctorEffect t = false := by
  have h : SandboxGuards.appDtorClearsSingleton = false := by decide
  exact ⟨h, fun _ _ t => by simp [genCfg, appDerivedTypes, h]⟩

/-- **sandbox_noninterference_pinned.**  Noninterference for the model configured by the generated
    tables as they are: every program, environment, fuel, and every table of natives whose flags are the
    registered ones and whose safe-flagged entries are pure. -/
theorem sandbox_noninterference_pinned (native : String → Option Native) (hidden : String → String → Bool)
    (hfl : NativeFlagsFromTable native)
    (hp : SafeNativesPure (genCfg native hidden)) (fuel : Nat) (e : Expr) (env : Env) :
    (eval (genCfg native hidden) true fuel e env).2.prot = env.prot := by
  refine sandbox_noninterference (genCfg native hidden) all_mutating_nodes_guarded
    (application_dtor_keeps_singleton.2 native hidden) call_and_field_checks_present.1 (callback_checks_present _ _) hp ?_ fuel e env
  intro f hf
  have h := hfl "Reference#set" f hf
  rw [reference_checks_present.2.2.1] at h
  cases hs : f.safe with
  | false => rfl
  | true => rw [hs] at h; cases h

/-- **application_dtor_guard_is_necessary** (what F-C19c was, kept as a statement about the UNREPAIRED destructor).
    Give `IcingaApplication` the constructor effect it had before ac7cac3 (`Application::~Application` clearing the
    singleton unconditionally) and noninterference is false: `IcingaApplication()` evaluated sandboxed from the
    empty environment clears the application singleton, because the constructor call is made before the
    side-effect-free test.  So the model is sensitive to exactly the condition the repair added. -/
theorem application_dtor_guard_is_necessary :
    ¬ (∀ (fuel : Nat) (e : Expr) (env : Env),
        (eval { genCfg (fun _ => none) (fun _ _ => false) with ctorEffect := fun t => t == "IcingaApplication" }
            true fuel e env).2.prot = env.prot) := by
  intro h
  have := h 3 (.call (.lit (.type_ "IcingaApplication")) []) {}
  revert this
  decide

/-- The natives the driver instantiates the model with carry the registered flags and are pure where flagged. -/
theorem driver_natives_meet_hypotheses (hidden : String → String → Bool) :
    NativeFlagsFromTable driverNative ∧ SafeNativesPure (genCfg driverNative hidden) := by
  constructor
  · intro n f hf
    simp only [driverNative] at hf
    cases hg : genSafe n with
    | none => simp [hg] at hf
    | some b => simp [hg] at hf; subst hf; rfl
  · intro n f hf hs self args p
    simp only [genCfg, driverNative] at hf
    cases hg : genSafe n with
    | none => simp [hg] at hf
    | some b =>
      simp [hg] at hf
      subst hf
      simp only at hs
      simp [hs]

/-- **driver_model_trace_meets_spec** — the whole-trace theorem at the model the driver actually runs
    (`genCfg driverNative hidden`: guard table, checks, native flags and the destructor flag as GENERATED from the source
    on this run), for every hidden-field table, fuel and sequence of operations.  No hypothesis is left that the
    generated tables do not discharge. -/
theorem driver_model_trace_meets_spec (hidden : String → String → Bool) (fuel : Nat) (ops : List Op)
    (hops : ∀ op ∈ ops, ∀ name args env, op = .unsafeNative name args env → genSafe name = some false) :
    specTrace (ops.map (Op.obs (genCfg driverNative hidden) fuel)) = none := by
  obtain ⟨hfl, hp⟩ := driver_natives_meet_hypotheses hidden
  refine model_trace_meets_spec (genCfg driverNative hidden)
    all_mutating_nodes_guarded (application_dtor_keeps_singleton.2 driverNative hidden) call_and_field_checks_present.1 (callback_checks_present _ _) hp ?_ fuel ops ?_
  · intro f hf
    have h := hfl "Reference#set" f hf
    rw [reference_checks_present.2.2.1] at h
    cases hs : f.safe with
    | false => rfl
    | true => rw [hs] at h; cases h
  · intro op hop name args env heq
    have hs := hops op hop name args env heq
    obtain ⟨f, hf⟩ : ∃ f, driverNative name = some f := by simp [driverNative, hs]
    have hfs := hfl name f hf
    rw [hs] at hfs
    exact ⟨f, hf, (Option.some.inj hfs).symm⟩

/-- **setconst_guard_is_necessary** (what F-C19a was, kept as a statement about the UNREPAIRED table).
    Take the one guard of `SetConstExpression` out of the generated table again and noninterference is
    false: `const X = 42` evaluated sandboxed from the empty environment defines the constant `X`.  So the
    model is sensitive to exactly the guard that commit 03364e3 added. -/
theorem setconst_guard_is_necessary :
    ¬ (∀ (fuel : Nat) (e : Expr) (env : Env),
        (eval { genCfg (fun _ => none) (fun _ _ => false) with
                  guard := fun k => genGuard k && k != "SetConstExpression" } true fuel e env).2.prot = env.prot) := by
  intro h
  have := h 2 (.setConst "X" (.lit (.num 42))) {}
  revert this
  decide
-- END F-C19 fixed


/-! ## Purely computational expressions and computed callees -/

/-- **computational_expressions_pure.**  An expression built from operators, literals, reads, array literals, blocks,
    conditionals, throw and try/except alone — no assignment node, no call node, no loop, no config statement
    (`Computational`) — leaves globals, constants, config objects, files and registries exactly as they were and invokes
    nothing, for EVERY configuration (no guard, no call check, no assumption about natives is needed), every fuel and
    environment, sandboxed or not: the operator nodes (expression.cpp:193-447) only combine the values of their operands
    through the free functions of value-operators.cpp. -/
theorem computational_expressions_pure (cfg : Cfg) (sb : Bool) (fuel : Nat) (e : Expr) (env : Env) (hc : Computational e) :
    (eval cfg sb fuel e env).2.prot = env.prot ∧ (eval cfg sb fuel e env).2.calls = env.calls :=
  (eval_pres_computational (R := sameState) cfg sb frameOk_sameState (readOk_sameState cfg _) (readOk_sameState cfg _) fuel e hc).h env

/-- **computational_obs_meets_spec.**  Hence the observation the model produces for a computational program satisfies
    the specification predicate UNCONDITIONALLY — whatever the guard table, the checks and the natives are. -/
theorem computational_obs_meets_spec (cfg : Cfg) (fuel : Nat) (e : Expr) (env : Env) (hc : Computational e) :
    specStep (modelObs cfg .program false fuel e env) = none := by
  obtain ⟨hp, hcl⟩ := computational_expressions_pure cfg true fuel e env hc
  simp [specStep, modelObs, observe, hp, hcl]
  intro x hx hnx
  exact absurd hx hnx

/-- **computed_callee_checked** (expression.cpp:454-461, :478-482).  The whitelist test does not depend on HOW the callee
    was obtained: whatever expression `f` computes the function value — `(a || b)`, `(c && d)`, a call that returns a
    function, … — if it evaluates to a native without the side-effect-free flag or to a script function, the call
    `f(args)` in a sandboxed frame is refused with the sandbox error, no argument is evaluated, nothing is invoked, and
    the state is exactly the one reached after evaluating `f`. -/
theorem computed_callee_checked (cfg : Cfg) (hcc : cfg.callCheck = true) (n : Nat) (f : Expr) (args : List Expr)
    (env env1 : Env) (vf : Value) (h1 : eval cfg true n f env = (.ok (vf, .ok), env1))
    (hu : (∃ name nf, vf = .fn name ∧ cfg.native name = some nf ∧ nf.safe = false) ∨ (∃ id, vf = .closure id)) :
    outcomeOf (eval cfg true (n + 1) (.call f args) env).1 = .sandbox ∧
    ((eval cfg true (n + 1) (.call f args) env).2 = env ∨ (eval cfg true (n + 1) (.call f args) env).2 = env1) := by
  by_cases hg : cfg.guard "FunctionCallExpression" = true
  · simp [eval, guardCheck, Expr.kind, hg, bind, M.bind, M.fail, outcomeOf]
  · rcases hu with ⟨name, nf, rfl, hn, hs⟩ | ⟨id, rfl⟩
    · simp [eval, guardCheck, Expr.kind, hg, bind, M.bind, M.fail, outcomeOf, evalNode, chk, pure, M.pure, h1,
        callValue, hn, hs, hcc]
    · simp [eval, guardCheck, Expr.kind, hg, bind, M.bind, M.fail, outcomeOf, evalNode, chk, pure, M.pure, h1,
        callValue, hcc]


/-- **unsafe_callback_rejected** (array-script.cpp:83-84,111-112,134-135,153-154,177-178,198-199).  A whitelisted
    higher-order native whose body has the callback test, handed a native WITHOUT the side-effect-free flag or a script
    function in a sandboxed frame, raises the sandbox error; the only new entry of the call log is the higher-order
    native itself and the protected state is untouched. -/
theorem unsafe_callback_rejected (cfg : Cfg) (ev : Expr → M Out) (name : String) (hcb : cfg.cbCheck name = true)
    (l : List String) (cbv : Value) (rest : List Value) (env : Env)
    (hu : (∃ cb g, cbv = .fn cb ∧ cfg.native cb = some g ∧ g.safe = false) ∨ (∃ id, cbv = .closure id)) :
    outcomeOf (hofInvoke cfg true ev name (.arr l) (cbv :: rest) env).1 = .sandbox ∧
    (hofInvoke cfg true ev name (.arr l) (cbv :: rest) env).2 = { env with calls := .native name :: env.calls } := by
  rcases hu with ⟨cb, g, rfl, hg, hs⟩ | ⟨id, rfl⟩
  · simp [hofInvoke, bind, M.bind, M.modify, hg, hs, hcb, M.fail, outcomeOf]
  · simp [hofInvoke, bind, M.bind, M.modify, hcb, M.fail, outcomeOf]


/-- **pinned_secrets_unreadable.**  The attributes the property names outright (`secretAttrs`: passwords, password hash,
    ticket salt — pinned in Spec.lean, not read from the implementation): in every configuration whose no_user_view
    table covers them and whose field check is in place, the observation of a sandboxed read of one of them on any live
    object satisfies the specification predicate, which judges such a read as a read of a hidden field WHATEVER flag the
    implementation reports (the driver sets `flagged := nuv || isSecretAttr type field`). -/
theorem pinned_secrets_unreadable (cfg : Cfg) (hf : cfg.fieldCheck = true)
    (hsec : ∀ p ∈ secretAttrs, cfg.hidden p.1 p.2 = true)
    (name field : String) (o : Obj) (v : Value) (env : Env)
    (ho : lookup name env.prot.objects = some o) (hv : lookup field o.attrs = some v)
    (hs : isSecretAttr o.type field = true) :
    specStep { kind := .field, flagged := isSecretAttr o.type field,
               outcome := outcomeOf (getField cfg true (.obj name) field env).1,
               changed := decide ((getField cfg true (.obj name) field env).2.prot ≠ env.prot), leak := false } = none := by
  have hh : cfg.hidden o.type field = true := hsec (o.type, field) (by simpa [isSecretAttr] using hs)
  rw [sandbox_hidden_fields cfg hf name field o v env ho hv hh]
  simp [specStep, outcomeOf, hs]


/-! ## Confidentiality for every program -/

/-- **sandbox_reads_only_visible.**  With the call check, the callback tests and the no_user_view check in place, `Reference::Get`
    passing `sandboxed = true` and `FindVarImport` passing the frame's flag: for EVERY program, environment and fuel, every
    attribute of a live config object whose value a sandboxed evaluation hands to the script (ghost read log of
    `Object::GetFieldByName`, object.cpp:106-126 — reached from `a.b`, `a[b]`, method-call receivers, `*r`, `r.get()`, bare names
    after `using`, compound assignments, callbacks of higher-order natives …) is a field that is NOT hidden from API users —
    whatever the guard table says and whatever the natives do to the state. -/
theorem sandbox_reads_only_visible (cfg : Cfg) (hcc : cfg.callCheck = true) (hcb : CbChecks cfg)
    (hf : cfg.fieldCheck = true) (hr : cfg.refGetSandboxed = true) (hi : cfg.importSandboxed = true)
    (fuel : Nat) (e : Expr) (env : Env) :
    ∀ x ∈ (eval cfg true fuel e env).2.reads, x ∈ env.reads ∨ cfg.hidden x.1 x.2 = false :=
  (eval_pres (R := readsOk cfg) cfg hcc hcb (logOk_readsOk cfg) (frameOk_readsOk cfg) (invokeOk_readsOk cfg hf hr)
    (readOk_readsOk cfg hf) (by rw [hr]; exact readOk_readsOk cfg hf) (by rw [hi]; exact readOk_readsOk cfg hf)
    (Or.inr (protOk_readsOk cfg)) fuel e).h env

/-- **sandbox_reads_only_visible_pinned.**  The same at the model configured by the tables GENERATED from the source on
    this run, for every table of natives and every no_user_view table: no hypothesis is left. -/
theorem sandbox_reads_only_visible_pinned (native : String → Option Native) (hidden : String → String → Bool)
    (fuel : Nat) (e : Expr) (env : Env) :
    ∀ x ∈ (eval (genCfg native hidden) true fuel e env).2.reads, x ∈ env.reads ∨ hidden x.1 x.2 = false :=
  sandbox_reads_only_visible (genCfg native hidden) call_and_field_checks_present.1 (callback_checks_present native hidden)
    call_and_field_checks_present.2.1 reference_checks_present.1 import_reads_respect_sandbox fuel e env

/-- **sandbox_never_reads_pinned_secrets.**  Hence, in every configuration whose no_user_view table covers the attributes the
    property names outright (`secretAttrs`), no sandboxed program ever obtains the value of a password, password hash or
    ticket salt of a live object through a field read. -/
theorem sandbox_never_reads_pinned_secrets (cfg : Cfg) (hcc : cfg.callCheck = true) (hcb : CbChecks cfg)
    (hf : cfg.fieldCheck = true) (hr : cfg.refGetSandboxed = true) (hi : cfg.importSandboxed = true)
    (hsec : ∀ p ∈ secretAttrs, cfg.hidden p.1 p.2 = true) (fuel : Nat) (e : Expr) (env : Env) :
    ∀ x ∈ (eval cfg true fuel e env).2.reads, x ∈ env.reads ∨ x ∉ secretAttrs := by
  intro x hx
  rcases sandbox_reads_only_visible cfg hcc hcb hf hr hi fuel e env x hx with h | h
  · exact Or.inl h
  · right
    intro hm
    have := hsec x hm
    rw [h] at this
    cases this


/-! ## Non-vacuity -/

deriving instance DecidableEq for Except

/-- A concrete configuration meeting every hypothesis of `sandbox_noninterference`: all mutating kinds
    guarded, call check on, one pure safe native and one mutating non-safe native. -/
def exCfg : Cfg :=
  { guard := fun k => mutating k, callCheck := true, fieldCheck := true,
    native := fun n =>
      if n = "System#len" then some { safe := true, run := fun _ _ p => (.ok (.num 3), p) }
      else if n = "System#log" then some { safe := false, run := fun _ _ p => (.ok .empty, { p with files := [("log", "x")] }) }
      else none,
    hidden := fun t f => t == "ApiUser" && f == "password" }

def exEnv : Env :=
  { prot := { globals := [("g", .num 5)],
              objects := [("u", { type := "ApiUser", attrs := [("password", .str "secret")] })] } }

example : (∀ k, mutating k = true → exCfg.guard k = true) ∧ exCfg.callCheck = true := ⟨fun _ h => h, rfl⟩
example : SafeNativesPure exCfg := by
  intro n f hn hs self args p
  simp only [exCfg] at hn
  split at hn
  · cases hn; rfl
  · split at hn
    · cases hn; simp at hs
    · cases hn
example : RefSetUnsafe exCfg := by
  intro f hf; simp [exCfg] at hf
-- the hypotheses do not make evaluation trivial: a sandboxed program computes a value through a safe native …
example : (eval exCfg true 9 (.binop .add (.var "g") (.call (.lit (.fn "System#len")) [.lit (.str "abc")])) exEnv).1
    = .ok (.num 8, .ok) := by decide
-- … the same configuration UNsandboxed really mutates (so the theorem is about the guards, not about a model that cannot write) …
example : (eval exCfg false 9 (.setConst "X" (.lit (.num 42))) exEnv).2.prot.consts = [("X", .num 42)] := by decide
example : (eval exCfg false 9 (.call (.lit (.fn "System#log")) []) exEnv).2.prot.files = [("log", "x")] := by decide
-- … errors keep the state reached so far (try/except continues from it) …
example : (eval exCfg false 9 (.tryExcept (.dict true [.setConst "X" (.lit (.num 1)), .throw_ (.lit (.str "x"))]) (.lit .empty)) exEnv).2.prot.consts
    = [("X", .num 1)] := by decide
-- … and the hidden-field hypotheses are satisfiable: the read is refused sandboxed, allowed otherwise.
example : (eval exCfg true 9 (.index (.lit (.obj "u")) (.lit (.str "password"))) exEnv).1 = .error (.hidden "ApiUser" "password") := by decide
example : (eval exCfg false 9 (.index (.lit (.obj "u")) (.lit (.str "password"))) exEnv).1 = .ok (.str "secret", .ok) := by decide
-- references: the read through a reference is refused exactly like the direct one (also in an unsandboxed
-- frame: the flag is the literal in Reference::Get), a visible field comes through, a write through a
-- reference happens unsandboxed and is refused sandboxed (exCfg2 = exCfg + the two Reference natives)
example : (eval exCfg true 9 (.deref (.ref (.index (.lit (.obj "u")) (.lit (.str "password"))))) exEnv).1
    = .error (.hidden "ApiUser" "password") := by decide
example : (eval exCfg false 9 (.deref (.ref (.index (.lit (.obj "u")) (.lit (.str "password"))))) exEnv).1
    = .error (.hidden "ApiUser" "password") := by decide
example : (eval { exCfg with refGetSandboxed := false } true 9
            (.deref (.ref (.index (.lit (.obj "u")) (.lit (.str "password"))))) exEnv).1 = .ok (.str "secret", .ok) := by decide
example : (eval exCfg true 9 (.deref (.ref (.var "g"))) exEnv).1 = .ok (.num 5, .ok) := by decide
example : (eval exCfg false 9 (.setDeref (.ref (.var "g")) .add (.lit (.num 1))) exEnv).2.prot.globals = [("g", .num 6)] := by decide
-- `using u` then the bare identifier `password`: refused sandboxed, readable otherwise, and readable sandboxed if
-- FindVarImport did not pass the flag on
example : (eval exCfg true 9 (.varIn [.lit (.obj "u")] "password") exEnv).1 = .error (.hidden "ApiUser" "password") := by decide
example : (eval exCfg false 9 (.varIn [.lit (.obj "u")] "password") exEnv).1 = .ok (.str "secret", .ok) := by decide
example : (eval { exCfg with importSandboxed := false } true 9 (.varIn [.lit (.obj "u")] "password") exEnv).1
    = .ok (.str "secret", .ok) := by decide
example : (eval exCfg true 9 (.varIn [.lit (.obj "u")] "g") exEnv).1 = .ok (.num 5, .ok) := by decide
-- init_dict: unsandboxed, `globals.d.x = 1` first creates the missing `d`
example : (eval exCfg false 9 (.setField (.index (.getScope .globals) (.lit (.str "d"))) "x" .literal (.lit (.num 1))) exEnv).2.prot.globals
    = [("g", .num 5), ("d", .dict [])] := by decide
-- the call log is not vacuous: the safe native is logged, the non-safe one never appears
example : (eval exCfg true 9 (.call (.lit (.fn "System#len")) []) exEnv).2.calls = [.native "System#len"] := by decide
example : (eval exCfg true 9 (.call (.lit (.fn "System#log")) []) exEnv).1 = .error (.notSafe (.native "System#log")) := by decide

-- the event-stream site: a filter that raises does not stop the next one from being evaluated — still sandboxed —, only
-- filters that yield a true value deliver, and the whole-trace theorem's operations are not all refusals
example : (pushEvent exCfg 9 [.throw_ (.lit (.str "x")), .setScoped .globals "g" .literal (.lit (.num 1)), .lit (.bool true), .var "g"] exEnv).1
    = [(false, .err), (false, .sandbox), (true, .ok), (true, .ok)] := by decide
example : (pushEvent exCfg 9 [.throw_ (.lit (.str "x")), .setScoped .globals "g" .literal (.lit (.num 1))] exEnv).2.prot = exEnv.prot := by decide
example : (Op.obs exCfg 9 (.events [.lit (.bool true), .throw_ (.lit (.str "x"))] exEnv)).outcome = .err := by decide
example : (Op.obs exCfg 9 (.program (.binop .add (.var "g") (.lit (.num 1))) exEnv)).outcome = .ok := by decide
example : specTrace ([Op.program (.binop .add (.var "g") (.lit (.num 1))) exEnv, .unsafeNative "System#log" [] exEnv,
                      .events [.lit (.bool true), .setConst "X" (.lit (.num 1))] exEnv].map (Op.obs exCfg 9)) = none := by decide
-- the trace theorem's side condition is needed: a native that IS flagged safe may return a value, which the spec accepts
-- only for natives carrying the flag (kind/flagged of the observation)
example : specStep (modelObs exCfg .native false 9 (.call (.lit (.fn "System#len")) []) exEnv) = some .onlySafeCalls := by decide
-- a constructor call with a process-wide effect is NOT stopped by the whitelist test (F-C19c) …
example : (eval { exCfg with ctorEffect := fun t => t == "IcingaApplication" } true 9 (.call (.lit (.type_ "IcingaApplication")) []) exEnv).2.prot.app
    = false := by decide
-- … while an ordinary one computes a value and changes nothing
example : (eval exCfg true 9 (.call (.lit (.type_ "String")) [.lit (.num 1)]) exEnv).1 = .ok (.str "1", .ok) ∧
    (eval exCfg true 9 (.call (.lit (.type_ "String")) [.lit (.num 1)]) exEnv).2.prot = exEnv.prot := by decide
example : specStep { kind := .events, flagged := false, outcome := .sandbox, changed := false, leak := false, matchedDespiteError := true }
    = some .sandboxedAtSite := by decide

-- computational expressions: the class is not empty and not trivial — `live + null + [ "x" ]` computes a fresh array and
-- leaves the live one alone, also UNsandboxed and with no guard and no call check at all …
def exConcat : Expr := .binop .add (.binop .add (.index (.lit (.obj "h")) (.lit (.str "groups"))) (.lit .empty)) (.array [.lit (.str "web")])
def exEnvH : Env := { prot := { objects := [("h", { type := "Host", attrs := [("groups", .arr ["linux"])] })] } }
example : Computational exConcat :=
  .binop _ (.binop _ (.index (.lit _) (.lit _)) (.lit _)) (.array (by intro e he; simp at he; subst he; exact .lit _))
example : (eval { exCfg with guard := fun _ => false, callCheck := false } false 9
            (.binop .add (.index (.lit (.obj "h")) (.lit (.str "groups"))) (.array [.lit (.str "web")])) exEnvH).1
    = .ok (.arr ["linux", "web"], .ok) := by decide
-- … while a NON-computational program in that unguarded configuration does write (the theorem is about the node class)
example : (eval { exCfg with guard := fun _ => false, callCheck := false } true 9
            (.setField (.lit (.obj "h")) "groups" .add (.array [.lit (.str "web")])) exEnvH).2.prot ≠ exEnvH.prot := by decide
-- computed callees: `(false || log)("x")` is refused like `log("x")`, `(false || len)("abc")` computes; without the call
-- check the computed callee runs the unsafe native (the theorem's hypothesis is needed)
example : (eval exCfg true 9 (.call (.lor (.lit (.bool false)) (.lit (.fn "System#log"))) [.lit (.str "x")]) exEnv).1
    = .error (.notSafe (.native "System#log")) := by decide
example : (eval exCfg true 9 (.call (.lor (.lit (.bool false)) (.lit (.fn "System#len"))) [.lit (.str "abc")]) exEnv).1
    = .ok (.num 3, .ok) := by decide
example : (eval { exCfg with callCheck := false } true 9 (.call (.lor (.lit (.bool false)) (.lit (.fn "System#log"))) []) exEnv).2.prot.files
    = [("log", "x")] := by decide

-- higher-order natives (array-script.cpp): `[ "a" ].map(log)` and `[ "a" ].map((x) => x)` are refused, `[ "a", "b" ].map(len)`
-- invokes `len` once per element; with the callback test taken out of `Array#map` the unsafe callback runs in the sandbox
def exCfgH : Cfg :=
  { exCfg with native := fun n => if n = "Array#map" then some { safe := true, run := fun _ _ p => (.ok .empty, p) } else exCfg.native n }
example : CbChecks exCfgH := fun _ _ => rfl
example : (eval exCfgH true 9 (.mcall (.array [.lit (.str "a")]) "map" [.lit (.fn "System#log")]) exEnv).1
    = .error (.notSafe (.native "System#log")) := by decide
example : (eval exCfgH true 9 (.mcall (.array [.lit (.str "a")]) "map" [.function "l" ["x"] (.var "x")]) exEnv).1
    = .error (.notSafe (.script "l")) := by decide
example : (eval exCfgH true 9 (.mcall (.array [.lit (.str "a"), .lit (.str "b")]) "map" [.lit (.fn "System#len")]) exEnv).2.calls
    = [.native "System#len", .native "System#len", .native "Array#map"] := by decide
example : (eval { exCfgH with cbCheck := fun _ => false } true 9 (.mcall (.array [.lit (.str "a")]) "map" [.lit (.fn "System#log")]) exEnv).2.prot.files
    = [("log", "x")] := by decide
example : (eval { exCfgH with cbCheck := fun _ => false } true 9
            (.mcall (.array [.lit (.str "a")]) "map" [.function "l" ["x"] (.call (.lit (.fn "System#len")) [.var "x"])]) exEnv).2.calls
    = [.native "System#len", .script "l", .native "Array#map"] := by decide

/-- **callback_check_is_necessary.**  Take the callback test out of `Array#map` (array-script.cpp:111-112) and
    noninterference is false although every node guard and the call check are in place: `[ "a" ].map(log)` runs the
    unflagged native inside the sandbox.  So the model is sensitive to exactly the per-native test that
    `callback_checks_present` reads from the source. -/
theorem callback_check_is_necessary :
    ¬ (∀ (fuel : Nat) (e : Expr) (env : Env),
        (eval { exCfgH with cbCheck := fun _ => false } true fuel e env).2.prot = env.prot) := by
  intro h
  have := h 9 (.mcall (.array [.lit (.str "a")]) "map" [.lit (.fn "System#log")]) exEnv
  revert this
  decide

-- pinned secrets: a successful read of the ticket salt is a violation even if the implementation reports the field as visible;
-- the hypothesis of `pinned_secrets_unreadable` is satisfiable
example : specStep { kind := .field, flagged := false || isSecretAttr "ApiListener" "ticket_salt", outcome := .ok, changed := false, leak := false }
    = some .hiddenFieldUnreadable := by decide
example : specStep { kind := .field, flagged := false || isSecretAttr "Host" "display_name", outcome := .ok, changed := false, leak := false } = none := by decide
example : ∀ p ∈ secretAttrs, ({ exCfg with hidden := fun t f => isSecretAttr t f }).hidden p.1 p.2 = true := by decide

-- the ghost read log is not vacuous: a visible attribute read sandboxed is logged, a hidden one is logged when read
-- UNsandboxed, and each of the three hypotheses of `sandbox_reads_only_visible` is needed
example : (eval exCfg true 9 (.index (.lit (.obj "h")) (.lit (.str "groups"))) exEnvH).2.reads = [("Host", "groups")] := by decide
example : (eval exCfg false 9 (.index (.lit (.obj "u")) (.lit (.str "password"))) exEnv).2.reads = [("ApiUser", "password")] := by decide
example : (eval exCfg true 9 (.index (.lit (.obj "u")) (.lit (.str "password"))) exEnv).2.reads = [] := by decide
example : (eval { exCfg with fieldCheck := false } true 9 (.index (.lit (.obj "u")) (.lit (.str "password"))) exEnv).2.reads
    = [("ApiUser", "password")] := by decide
example : (eval { exCfg with refGetSandboxed := false } true 9
            (.deref (.ref (.index (.lit (.obj "u")) (.lit (.str "password"))))) exEnv).2.reads = [("ApiUser", "password")] := by decide
example : (eval { exCfg with importSandboxed := false } true 9 (.varIn [.lit (.obj "u")] "password") exEnv).2.reads
    = [("ApiUser", "password")] := by decide

-- the specification predicate rejects wrong traces (it is not vacuous)
example : specTrace [{ kind := .program, flagged := false, outcome := .ok, changed := false, leak := false },
                     { kind := .program, flagged := false, outcome := .ok, changed := true, leak := false }]
    = some .stateUnchanged := by decide
example : specStep { kind := .native, flagged := false, outcome := .ok, changed := false, leak := false } = some .onlySafeCalls := by decide
example : specStep { kind := .program, flagged := false, outcome := .err, changed := false, leak := false, unsafeInvoked := true }
    = some .onlySafeCalls := by decide
example : specStep { kind := .native, flagged := false, outcome := .err, changed := false, leak := false } = none := by decide
example : specStep { kind := .field, flagged := true, outcome := .ok, changed := false, leak := false } = some .hiddenFieldUnreadable := by decide
example : specStep { kind := .program, flagged := false, outcome := .ok, changed := false, leak := true } = some .noLeak := by decide
example : specStep { kind := .native, flagged := true, outcome := .err, changed := false, leak := false } = none := by decide

end Icinga.C19

/-
  C07 — property theorems.  Every `theorem` in this file is a proof obligation of the check
  (`./check C07` lists them and runs `#print axioms` on each).  Helper lemmas:
  IcingaProofs/C07/{Lemmas,Reach,Cycle}.lean.

  "Acyclic" is stated through a ranking certificate (`Ranked g rank`: every dependency's parent ranks
  strictly below its child; `RankedS succ rank` for an arbitrary edge function).  A ranking excludes
  every cycle (`ranked_excludes_cycles`), and `rank v` bounds the length of every dependency chain
  above `v`, so "`rank ≤ 256`" is "at most 256 levels deep".
-/
import IcingaProofs.C07.Cycle
import IcingaProofs.C07.Registry
import IcingaProofs.C07.History
import IcingaProofs.C07.RegReach
import IcingaProofs.C07.HistReg
import IcingaProofs.Gen.DepConsts

namespace Icinga.C07

/-! ## availability -/

/-- **available_spec** — `Dependency::IsAvailable(dt)` is the property's five-way disjunction, for each
    aspect, for every dependency between two different checkables. -/
theorem available_spec (g : Graph) (dt : Aspect) (d : Dep) (hne : d.parent ≠ d.child) :
    available g dt d = true ↔
      ((g.node d.parent).checked = false                                  -- never checked
       ∨ stateListed (g.node d.parent) d.stateFilter = true               -- state listed in the filter
       ∨ (d.ignoreSoft = true ∧ (g.node d.parent).hard = false)           -- soft ∧ ignore_soft_states
       ∨ d.periodClosed = true                                            -- period closed
       ∨ (dt = .checkExec ∧ d.disableChecks = false)                      -- aspect not disabled
       ∨ (dt = .notification ∧ d.disableNotifications = false)) := by
  rw [available_eq]
  have : (d.parent == d.child) = false := by simpa using hne
  rw [this, Bool.false_or]
  cases dt <;> simp [availSpec, aspectFree, or_assoc]

/-- the code's sixth escape (dependency.cpp:283): a dependency of a checkable on itself is always
    available.  Such a dependency is a cycle and cannot be loaded (`self_dependency_rejected`). -/
theorem available_self (g : Graph) (dt : Aspect) (d : Dep) (h : d.parent = d.child) :
    available g dt d = true := by
  simp [available, h]

/-- **group_state_spec** — `DependencyGroup::GetState` is `Ok` iff, for a redundancy group, at least one
    dependency has a reachable parent and is available; outside a redundancy group, all of them. -/
theorem group_state_spec (reach : Nat → Bool) (avail : Dep → Bool) (red : Bool) (deps : List Dep) :
    groupState reach avail red deps = .ok ↔
      (if red then ∃ d ∈ deps, reach d.parent = true ∧ avail d = true
       else ∀ d ∈ deps, reach d.parent = true ∧ avail d = true) :=
  groupState_ok_iff reach avail red deps

/-! ## attributes the configuration leaves unset -/

/-- **unset_states_spec** — a dependency configured without `states`: its parent "is in a state listed in the
    dependency's state filter" exactly when the parent is Up (host: OK or WARNING plugin state) resp. OK or
    Warning (service) — `Dependency::OnConfigLoaded`'s default, for every parent state. -/
theorem unset_states_spec (x : DepDecl) (hs : x.states = none) (p : Node) :
    stateListed p (x.resolve p.isService).stateFilter = (p.stateRaw == 0 || p.stateRaw == 1) := by
  simp only [DepDecl.resolve, hs, Option.getD_none, defaultFilter, stateListed]
  cases hp : p.isService
  · simp
  · simp

/-- a dependency configured with nothing but child and parent. -/
def bareDecl (c p : Nat) : DepDecl :=
  { child := c, parent := p, group := none, states := none, ignoreSoft := none, period := none,
    disableChecks := none, disableNotifications := none }

/-- **unset_flags_spec** — availability of a dependency configured with nothing but child and parent, for each
    aspect: never-checked parent, parent Up / OK / Warning, parent in a soft state (`ignore_soft_states` defaults to
    true), or — `disable_checks` defaulting to false, `disable_notifications` to true — the question being about
    check execution.  Checks of the child are NOT suppressed by default, notifications are. -/
theorem unset_flags_spec (g : Graph) (dt : Aspect) (c p : Nat) (hne : p ≠ c) :
    available g dt ((bareDecl c p).resolve (g.node p).isService) = true ↔
      ((g.node p).checked = false ∨ ((g.node p).stateRaw = 0 ∨ (g.node p).stateRaw = 1) ∨ (g.node p).hard = false ∨
       dt = .checkExec) := by
  have hd : ((bareDecl c p).resolve (g.node p).isService).parent ≠ ((bareDecl c p).resolve (g.node p).isService).child := hne
  rw [available_spec g dt _ hd]
  have hl := unset_states_spec (bareDecl c p) rfl (g.node p)
  have hp : ((bareDecl c p).resolve (g.node p).isService).parent = p := rfl
  rw [hp, hl]
  simp [bareDecl, DepDecl.resolve]

example : (({ child := 1, parent := 0, group := none, states := some 0, ignoreSoft := none, period := none,
              disableChecks := none, disableNotifications := none } : DepDecl).resolve false).stateFilter = 0 := by decide
example : (({ child := 1, parent := 0, group := none, states := none, ignoreSoft := none, period := none,
              disableChecks := none, disableNotifications := none } : DepDecl).resolve true).stateFilter = 3 := by decide

/-! ## the constants of the model against the source (lean/IcingaProofs/Gen/DepConsts.lean, regenerated by
      gen/c07_consts.py from /repo at the start of every run) -/

section SourceConstants
open Icinga.Gen.DepConsts

/-- **recursion_limit_matches_source** — the model evaluates the levels `rstack = 0 … l_MaxDependencyRecursionLevel`
    (`rstack > limit ⇒ false`, checkable-dependency.cpp:191). -/
theorem recursion_limit_matches_source : topFuel = maxDependencyRecursionLevelSrc + 1 := by decide

/-- **state_filter_bits_match_source** — the bit the model tests for each parent kind and state is the source's
    `StateFilter*` enumerator (hosts: OK/WARNING plugin state = Up). -/
theorem state_filter_bits_match_source :
    (∀ h c hd, stateBit { isService := true, host := h, checked := c, stateRaw := 0, hard := hd } = stateFilterOKSrc) ∧
    (∀ h c hd, stateBit { isService := true, host := h, checked := c, stateRaw := 1, hard := hd } = stateFilterWarningSrc) ∧
    (∀ h c hd, stateBit { isService := true, host := h, checked := c, stateRaw := 2, hard := hd } = stateFilterCriticalSrc) ∧
    (∀ h c hd, stateBit { isService := true, host := h, checked := c, stateRaw := 3, hard := hd } = stateFilterUnknownSrc) ∧
    (∀ h c hd, stateBit { isService := false, host := h, checked := c, stateRaw := 0, hard := hd } = stateFilterUpSrc) ∧
    (∀ h c hd, stateBit { isService := false, host := h, checked := c, stateRaw := 1, hard := hd } = stateFilterUpSrc) ∧
    (∀ h c hd, stateBit { isService := false, host := h, checked := c, stateRaw := 2, hard := hd } = stateFilterDownSrc) ∧
    (∀ h c hd, stateBit { isService := false, host := h, checked := c, stateRaw := 3, hard := hd } = stateFilterDownSrc) := by
  refine ⟨?_, ?_, ?_, ?_, ?_, ?_, ?_, ?_⟩ <;> intro _ _ _ <;> rfl

/-- **config_defaults_match_source** — what `DepDecl.resolve` substitutes for unset attributes is what
    `Dependency::OnConfigLoaded` and dependency.ti say in the checked tree. -/
theorem config_defaults_match_source :
    defaultFilter false = defaultFilterHostParentSrc ∧ defaultFilter true = defaultFilterServiceParentSrc ∧
    (∀ c p s, ((bareDecl c p).resolve s).ignoreSoft = ignoreSoftStatesDefaultSrc) ∧
    (∀ c p s, ((bareDecl c p).resolve s).disableChecks = disableChecksDefaultSrc) ∧
    (∀ c p s, ((bareDecl c p).resolve s).disableNotifications = disableNotificationsDefaultSrc) := by
  refine ⟨by decide, by decide, ?_, ?_, ?_⟩ <;> intro _ _ _ <;> rfl

end SourceConstants

/-! ## reachability -/

/-- **reachable_spec** — on an acyclic dependency graph at most 256 levels deep, `IsReachable`
    (started with `rstack = 0`) *is* the property's predicate: it satisfies "reachable exactly when
    host not hard Down ∧ every plain dependency has a reachable parent and is available ∧ every
    redundancy group has one such" at every checkable, and it is the only assignment that does. -/
theorem reachable_spec (g : Graph) (dt : Aspect) (rank : Nat → Nat) (hr : Ranked g rank)
    (hdepth : ∀ v, rank v ≤ 256) :
    (∀ v, isReachable g dt v = reachClause g dt (isReachable g dt) v) ∧
    (∀ R : Nat → Bool, (∀ v, R v = reachClause g dt R v) → ∀ v, R v = isReachable g dt v) := by
  constructor
  · intro v
    rw [← reachStep_eq_clause g hr.noSelf]
    exact isReachable_unfold g dt rank hr v (hdepth v)
  · intro R hR v
    exact solution_unique g dt rank hr R (fun v _ => hR v) (rank v + 1) v (Nat.lt_succ_self _) (hdepth v)

/-- **too_deep_unreachable** — the error branch of the recursion limit: a checkable below a chain of
    257 dependencies outside redundancy groups is reported unreachable whatever the states are. -/
theorem too_deep_unreachable (g : Graph) (dt : Aspect) (v : Nat) (h : PlainChain g 257 v) :
    isReachable g dt v = false :=
  reachable_false_of_chain g dt 257 v h

/-- **model_query_meets_spec** — the specification predicate the driver evaluates on the
    implementation's observations accepts the model's own answers (all three aspects, dependency
    counts of the live set), for every acyclic graph at most 256 levels deep. -/
theorem model_query_meets_spec (n : Nat) (g : Graph) (rank : Nat → Nat) (hr : Ranked g rank)
    (hdepth : ∀ v, rank v ≤ 256) :
    specQuery n g (isReachable g) (fun v => (depsOf g v).length) = none := by
  have h : ∀ dt, reachEqHolds n g dt (isReachable g dt) = true := by
    intro dt
    simp only [reachEqHolds, List.all_eq_true, beq_iff_eq]
    intro v _
    exact (reachable_spec g dt rank hr hdepth).1 v
  simp [specQuery, h, depsOf]

/-! ## cycle rejection -/

/-- a ranking excludes every cycle (and every self-loop). -/
theorem ranked_excludes_cycles (succ : Nat → List Nat) (rank : Nat → Nat) (hr : RankedS succ rank)
    (v : Nat) : ¬ Path succ v v :=
  ranked_no_cycle hr v

/-- **cycle_check_sound** — if the registered graph is acyclic and `BeforeOnAllConfigLoadedHandler`
    accepts a batch of new dependencies (searching only from the parents of the new dependencies),
    then the registered graph plus the batch, with the implicit service → host edges, is acyclic:
    no checkable lies on a cycle. -/
theorem cycle_check_sound (g : Graph) (new : List Dep) (bound : Nat)
    (hg : ∃ rg, RankedS (succs g) rg) (h : (cycleCheck g new bound).accepted = true) :
    (∃ r, RankedS (succs (withNew g new)) r) ∧ ∀ v, ¬ Path (succs (withNew g new)) v v := by
  obtain ⟨rg, hrg⟩ := hg
  cases hres : cycleCheck g new bound with
  | cycle => rw [hres] at h; cases h
  | fuelOut => rw [hres] at h; cases h
  | ok fin =>
    obtain ⟨ht, hp⟩ := cycleCheck_ok_topSorted g new bound fin hres
    have hr := combinedRank_ranked g new fin rg hrg ht hp
    exact ⟨⟨_, hr⟩, fun v => ranked_no_cycle hr v⟩

/-- **initial_load_sound** — the case of a fresh load: nothing registered yet, every dependency is in
    the batch. -/
theorem initial_load_sound (g : Graph) (hw : WellFormed g) (he : g.deps = []) (new : List Dep) (bound : Nat)
    (h : (cycleCheck g new bound).accepted = true) :
    ∀ v, ¬ Path (succs (withNew g new)) v v :=
  (cycle_check_sound g new bound ⟨_, implicit_ranked g hw he⟩ h).2

/-- **cycle_check_complete** — conversely an acyclic result is accepted: if registered graph plus
    batch admit a ranking whose values at the batch's parents do not exceed `bound` (the number of
    checkables; the height of an acyclic graph is below it), the search neither reports a cycle nor
    exhausts the model's fuel. -/
theorem cycle_check_complete (g : Graph) (new : List Dep) (bound : Nat) (r : Nat → Nat)
    (hr : RankedS (succs (withNew g new)) r) (hb : ∀ d ∈ new, r d.parent ≤ bound) :
    (cycleCheck g new bound).accepted = true := by
  have : IsOk (cycleCheck g new bound) := by
    unfold cycleCheck
    apply dfsList_complete
    intro fin w hw
    obtain ⟨d, hd, rfl⟩ := List.mem_map.1 hw
    exact dfs_complete _ r hr (bound + 1) [] fin d.parent (by have := hb d hd; omega) (by simp)
  cases hres : cycleCheck g new bound with
  | cycle => rw [hres] at this; exact this.elim
  | fuelOut => rw [hres] at this; exact this.elim
  | ok fin => rfl

/-- **cycle_check_iff_acyclic** — both directions against the specification's own, DFS-independent
    acyclicity decision (`acyclicSpec`: repeatedly remove the checkables without outgoing edges): with
    `n` checkables `0 … n-1`, all edges among them, and an acyclic registered graph, a batch is accepted
    exactly when registered graph + batch + implicit service → host edges are acyclic. -/
theorem cycle_check_iff_acyclic (n : Nat) (g : Graph) (new : List Dep)
    (hc : Closed n (withNew g new)) (hg : ∃ rg, RankedS (succs g) rg) :
    (cycleCheck g new n).accepted = true ↔ acyclicSpec n (withNew g new) = true := by
  constructor
  · intro h
    obtain ⟨⟨r, hr⟩, _⟩ := cycle_check_sound g new n hg h
    exact acyclicSpec_of_ranked n _ r hr
  · intro h
    obtain ⟨hr, hb⟩ := ranked_of_acyclicSpec n _ hc h
    exact cycle_check_complete g new n _ hr (fun d _ => hb d.parent)

/-- **acyclic_iff_no_closed_walk** — the specification's peeling decision is the standard notion: for
    `n` checkables with all edges among them, peeling empties the graph exactly when there is no
    non-empty closed walk (`Path succ v v`) along dependencies and implicit service → host edges. -/
theorem acyclic_iff_no_closed_walk (n : Nat) (g : Graph) (hc : Closed n g) :
    acyclicSpec n g = true ↔ ∀ v, ¬ Path (succs g) v v := by
  constructor
  · intro h v
    exact ranked_no_cycle (ranked_of_acyclicSpec n g hc h).1 v
  · exact acyclicSpec_of_no_cycle n g

/-- **no_cycle_iff_ranked** — ranking certificates are exactly acyclicity (finite closed graphs). -/
theorem no_cycle_iff_ranked (n : Nat) (g : Graph) (hc : Closed n g) :
    (∀ v, ¬ Path (succs g) v v) ↔ ∃ r, RankedS (succs g) r := by
  constructor
  · intro h
    exact ⟨_, (ranked_of_acyclicSpec n g hc (acyclicSpec_of_no_cycle n g h)).1⟩
  · rintro ⟨r, hr⟩ v
    exact ranked_no_cycle hr v

/-- **cycle_check_iff_no_cycle** — the cycle checker against the standard definition of a cycle: with an
    acyclic registered graph, a batch is accepted exactly when registered graph + batch + implicit
    service → host edges contain no non-empty closed walk. -/
theorem cycle_check_iff_no_cycle (n : Nat) (g : Graph) (new : List Dep)
    (hc : Closed n (withNew g new)) (hg : ∀ v, ¬ Path (succs g) v v) :
    (cycleCheck g new n).accepted = true ↔ ∀ v, ¬ Path (succs (withNew g new)) v v := by
  rw [cycle_check_iff_acyclic n g new hc ((no_cycle_iff_ranked n g hc.of_withNew).1 hg)]
  exact acyclic_iff_no_closed_walk n _ hc

/-- **runtime_add_refused_unchanged** — a dependency (batch) added at runtime that closes a cycle is
    refused and the registered graph stays exactly as it was; an addition that closes none is applied. -/
theorem runtime_add_refused_unchanged (n : Nat) (g : Graph) (new : List Dep)
    (hc : Closed n (withNew g new)) (hg : ∀ v, ¬ Path (succs g) v v) :
    ((∃ v, Path (succs (withNew g new)) v v) → runtimeAdd g new n = (g, false)) ∧
    ((∀ v, ¬ Path (succs (withNew g new)) v v) → runtimeAdd g new n = (withNew g new, true)) := by
  have hiff := cycle_check_iff_no_cycle n g new hc hg
  constructor
  · rintro ⟨v, hv⟩
    have : (cycleCheck g new n).accepted = false := by
      cases hacc : (cycleCheck g new n).accepted with
      | false => rfl
      | true => exact absurd hv (hiff.1 hacc v)
    simp [runtimeAdd, this]
  · intro h
    simp [runtimeAdd, hiff.2 h, withNew]

/-- **runtime_adds_stay_acyclic** — whatever sequence of batches is attempted at runtime, the registered
    graph never contains a cycle (so `IsReachable` keeps terminating, `terminates_on_accepted`). -/
theorem runtime_adds_stay_acyclic (n : Nat) (batches : List (List Dep)) :
    ∀ g : Graph, (∃ r, RankedS (succs g) r) → ∃ r, RankedS (succs (runtimeAdds n g batches)) r := by
  induction batches with
  | nil => intro g hg; exact hg
  | cons b bs ih =>
    intro g hg
    simp only [runtimeAdds]
    apply ih
    unfold runtimeAdd
    cases hacc : (cycleCheck g b n).accepted with
    | false => simpa using hg
    | true => simpa [withNew] using (cycle_check_sound g b n hg hacc).1

/-- **model_runtime_add_meets_spec** — the specification predicate evaluated on every observed runtime
    addition (cycle ⇒ refused; refused ⇒ dependency counts unchanged; accepted ⇒ exactly the batch added)
    accepts the model's own behaviour. -/
theorem model_runtime_add_meets_spec (n : Nat) (g : Graph) (new : List Dep) (hg : ∃ rg, RankedS (succs g) rg) :
    specRuntimeAdd n g new (runtimeAdd g new n).2 (fun v => (depsOf (runtimeAdd g new n).1 v).length) = none := by
  unfold specRuntimeAdd runtimeAdd
  cases hacc : (cycleCheck g new n).accepted with
  | false => simp [depsOf]
  | true =>
    obtain ⟨⟨r, hr⟩, _⟩ := cycle_check_sound g new n hg hacc
    have := acyclicSpec_of_ranked n _ r hr
    simp only [withNew] at this
    simp [depsOf, this]

/-- **model_load_meets_spec** — the specification predicate the driver evaluates on the implementation's
    accepted/rejected answer ("a configuration containing a cycle is rejected", decided by peeling,
    independently of the DFS) accepts the model's own verdict for every batch. -/
theorem model_load_meets_spec (n : Nat) (g : Graph) (new : List Dep) (bound : Nat)
    (hg : ∃ rg, RankedS (succs g) rg) :
    specLoad n (withNew g new) (cycleCheck g new bound).accepted = none := by
  unfold specLoad
  cases hacc : (cycleCheck g new bound).accepted with
  | false => simp
  | true =>
    obtain ⟨⟨r, hr⟩, _⟩ := cycle_check_sound g new bound hg hacc
    simp [acyclicSpec_of_ranked n _ r hr]

/-- **self_dependency_rejected** — a dependency of a checkable on itself is never accepted. -/
theorem self_dependency_rejected (g : Graph) (new : List Dep) (bound : Nat) (hg : ∃ rg, RankedS (succs g) rg)
    (d : Dep) (hd : d ∈ new) (hs : d.parent = d.child) :
    (cycleCheck g new bound).accepted = false := by
  cases hacc : (cycleCheck g new bound).accepted with
  | false => rfl
  | true =>
    exfalso
    refine (cycle_check_sound g new bound hg hacc).2 d.child (Path.single ?_)
    exact mem_succs_withNew.2 (Or.inr ⟨d, hd, rfl, hs⟩)

/-- **terminates_on_accepted** — on every accepted configuration the recursion of `IsReachable` has a
    depth that depends on the configuration only: some `N` exists beyond which additional fuel is
    never consumed, for every checkable, aspect and state assignment — evaluation terminates without
    the limit.  (States live in `node`, which `cycleCheck` reads only for `isService`/`host`.) -/
theorem terminates_on_accepted (g : Graph) (new : List Dep) (bound : Nat)
    (hg : ∃ rg, RankedS (succs g) rg) (h : (cycleCheck g new bound).accepted = true) :
    ∃ N, ∀ dt f v, N ≤ f → reachable (withNew g new) dt f v = reachable (withNew g new) dt N v := by
  obtain ⟨⟨r, hr⟩, _⟩ := cycle_check_sound g new bound hg h
  have hrk := ranked_capped (rankedS_ranked hr)
  refine ⟨maxChildRank r (withNew g new).deps + 1, ?_⟩
  intro dt f v hf
  apply reachable_fuel_indep (withNew g new) dt _ hrk
  · show min (r v) _ < _; omega
  · show min (r v) _ < _; omega

/-! ## whole histories -/

/-- **history_step_meets_spec** — in every state a history can reach (`HInv`: registered graph acyclic,
    reverse-dependency container mirroring the live set) the observation the model produces for ANY next
    operation — a load or runtime creation (accepted or refused), a removal, a state or period change, a
    query of all three aspects, a read-out of parents / children / reverse dependencies — satisfies the
    specification predicate the driver evaluates on the implementation's observation of that step. -/
theorem history_step_meets_spec (n : Nat) (hs : HState) (hi : HInv hs) (op : HOp) :
    specObs n hs.cfg (hstep n hs op).2 = none := by
  cases op with
  | load batch =>
    rw [hstep_load_obs]
    simp only [specObs]
    have := model_runtime_add_meets_spec n hs.cfg.graph (batch.map (·.2)) hi.acyclic
    exact this
  | remove id => simp only [hstep, specObs]
  | setState v ck r h => simp only [hstep, specObs]
  | setPeriod p cl => simp only [hstep, specObs]
  | query =>
    simp only [hstep, specObs]
    split
    · next h =>
      obtain ⟨rank, hr, hd⟩ := inScope_certificate n hs.cfg.graph h
      exact model_query_meets_spec n hs.cfg.graph rank hr hd
    · rfl
  | edges => exact model_edges_meet_spec n hs hi

/-- **history_meets_spec** — the whole-trace theorem: for every set of checkables (services' hosts being
    hosts) and EVERY sequence of operations starting from the empty configuration — loads and runtime
    creations of arbitrary batches (cyclic ones are refused by the model's cycle checker), removals, state
    changes, period changes, queries, edge read-outs, in any order and number — the specification predicate
    evaluated over the recorded history finds no violated clause: every accepted load leaves the graph
    acyclic, every refused one leaves it unchanged, every query inside the property's scope answers the
    "reachable exactly when" equation for all three aspects on the live set, and parents / children /
    reverse dependencies equal the live set.  No hypothesis on the reached graph: acyclicity is an
    invariant established by the cycle checker itself. -/
theorem history_meets_spec (n : Nat) (node : Nat → Node)
    (hw : WellFormed { node := node, deps := [] }) (ops : List HOp) :
    specTrace n { node := node } (hrun n { cfg := { node := node } } ops) = none := by
  have key : ∀ (ops : List HOp) (hs : HState), HInv hs → specTrace n hs.cfg (hrun n hs ops) = none := by
    intro ops
    induction ops with
    | nil => intro hs _; rfl
    | cons op ops ih =>
      intro hs hi
      simp only [hrun, specTrace, history_step_meets_spec n hs hi op]
      rw [← hstep_cfg]
      exact ih _ (hstep_inv n hs op hi)
  exact key ops _ (hinv_init node hw)

/-- **history_stays_acyclic** — after every history the registered graph, together with the implicit
    service → host edges, contains no cycle (so `IsReachable` terminates without its limit,
    `terminates_on_accepted`), and the reverse-dependency container holds exactly the live dependencies. -/
theorem history_stays_acyclic (n : Nat) (node : Nat → Node)
    (hw : WellFormed { node := node, deps := [] }) (ops : List HOp) :
    let final := ops.foldl (fun hs op => (hstep n hs op).1) ({ cfg := { node := node } } : HState)
    (∀ v, ¬ Path (succs final.cfg.graph) v v) ∧ final.rev = final.cfg.live.map (fun x => (x.2.parent, x)) := by
  have key : ∀ (ops : List HOp) (hs : HState), HInv hs →
      HInv (ops.foldl (fun hs op => (hstep n hs op).1) hs) := by
    intro ops
    induction ops with
    | nil => intro hs hi; exact hi
    | cons op ops ih => intro hs hi; exact ih _ (hstep_inv n hs op hi)
  have hi := key ops _ (hinv_init node hw)
  obtain ⟨r, hr⟩ := hi.acyclic
  exact ⟨fun v => ranked_no_cycle hr v, hi.rev⟩

/-! ## runtime additions/removals leave the registry equal to a fresh load -/

/-- **registry_refines_set** — for every sequence of runtime `AddDependency`/`RemoveDependency` calls
    (duplicates, repeated adds, removals of absent objects, groups shared between children), starting from
    the empty registry: (1) the per-child view — `GetDependenciesForChild(child)` on the group the
    checkable holds under a key — is exactly the multiset of live dependencies of that child with that
    key, and the checkable holds a group under a key iff such a dependency exists; (2) the registry *is*
    what a fresh load of the live set builds (`RegistryIs`: pairwise different, non-empty groups, one per
    identity occurring among the live (child, key) groups, each holding all live dependencies of that
    identity).  Redundancy group names are non-empty (an empty name means "no group" in the code). -/
theorem registry_refines_set (ops : List ROp) (hn : ∀ x, ROp.add x ∈ ops → x.d.group ≠ some "") :
    let st := ops.foldl applyOp {}
    let live := ops.foldl liveAfter []
    (∀ c k, (∀ x, x ∈ viewDeps st c k ↔ x ∈ live ∧ x.d.child = c ∧ x.d.key = k) ∧ (viewDeps st c k).Nodup ∧
            ((cmapLookup st.cmap (c, k)).isSome ↔ ∃ x ∈ live, x.d.child = c ∧ x.d.key = k)) ∧
    RegistryIs st.registry live := by
  intro st live
  have h : Inv st live := run_inv ops {} [] inv_empty hn
  refine ⟨fun c k => ?_, inv_registry h⟩
  obtain ⟨_, hm, hnd⟩ := dropGroup_inv h c k
  rw [viewDeps_eq_drop]
  refine ⟨hm, hnd, ?_⟩
  constructor
  · intro hs
    obtain ⟨i, hi⟩ := Option.isSome_iff_exists.1 hs
    exact (h.centry c k i (lookup_some hi)).2.2
  · rintro ⟨x, hx, rfl, rfl⟩
    cases hl : cmapLookup st.cmap (x.d.child, x.d.key) with
    | some i => rfl
    | none =>
      obtain ⟨i, hi⟩ := h.live x hx
      exact absurd hi (lookup_none hl i)

/-- **fresh_load_spec** — `PushDependencyGroupsToRegistry` after a load: whatever the order in which the
    checkables push their pending groups (each (child, key) pair once), the result satisfies the same
    characterisation. -/
theorem fresh_load_spec (L : List LDep) (hL : L.Nodup) (hn : ∀ x ∈ L, x.d.group ≠ some "")
    (todo : List (Nat × GKey)) (hnd : todo.Nodup)
    (hcov : ∀ ck, ck ∈ todo ↔ ∃ x ∈ L, (x.d.child, x.d.key) = ck) :
    Inv (pushAll L {} todo) L := by
  have h0 : Inv {} (L.filter (fun x => (fun _ => false) (x.d.child, x.d.key))) := by
    have : L.filter (fun x => (fun _ => false) (x.d.child, x.d.key)) = [] := by simp
    rw [this]; exact inv_empty
  have := pushAll_inv L hL hn todo {} (fun _ => false) hnd (fun ck hck => ⟨rfl, (hcov ck).1 hck⟩) h0
  apply this.congr hL
  intro x
  simp only [Bool.false_or, List.mem_filter, List.contains_iff_mem]
  exact ⟨fun hx => hx.1, fun hx => ⟨hx, (hcov _).2 ⟨x, hx, rfl⟩⟩⟩

/-- **runtime_equals_fresh_load** — "adding and removing dependencies at runtime leaves the graph equal to
    what a fresh load of the same set would give": the registry reached by any runtime sequence and the
    registry of a fresh load of the resulting live set have the same number of groups, and correspond
    group by group (same identity, same members); the per-child views coincide. -/
theorem runtime_equals_fresh_load (ops : List ROp) (hn : ∀ x, ROp.add x ∈ ops → x.d.group ≠ some "")
    (todo : List (Nat × GKey)) (hnd : todo.Nodup)
    (hcov : ∀ ck, ck ∈ todo ↔ ∃ x ∈ ops.foldl liveAfter [], (x.d.child, x.d.key) = ck) :
    let rt := ops.foldl applyOp {}
    let fresh := pushAll (ops.foldl liveAfter []) {} todo
    rt.registry.length = fresh.registry.length ∧
    (∀ g ∈ rt.registry, ∃ g' ∈ fresh.registry, identEq g.ident g'.ident = true ∧ ∀ x, x ∈ g.members ↔ x ∈ g'.members) ∧
    (∀ c k x, x ∈ viewDeps rt c k ↔ x ∈ viewDeps fresh c k) := by
  intro rt fresh
  have h1 : Inv rt (ops.foldl liveAfter []) := run_inv ops {} [] inv_empty hn
  have h2 : Inv fresh (ops.foldl liveAfter []) := fresh_load_spec _ h1.lnodup h1.names todo hnd hcov
  obtain ⟨hu1, hu2⟩ := registryIs_unique (inv_registry h1) (inv_registry h2)
  refine ⟨hu2, hu1, fun c k x => ?_⟩
  rw [viewDeps_eq_drop, viewDeps_eq_drop, (dropGroup_inv h1 c k).2.1 x, (dropGroup_inv h2 c k).2.1 x]


/-! ## reachability is evaluated on the registry's group objects: that evaluation is the live set's -/

/-- **reachable_via_registry** — `Checkable::IsReachable` as the code walks it (the group objects the checkable
    holds in `m_DependencyGroups`, each group's `IsRedundancyGroup()` taken from the GROUP's name, each group's
    `GetDependenciesForChild(this)` read from the shared registry entry) gives, after EVERY sequence of runtime
    `AddDependency`/`RemoveDependency` calls from the empty registry, for every assignment of states to the
    checkables, every aspect and every checkable, exactly the answer of `isReachable` on the graph of the live
    dependencies — the function `reachable_spec` / `history_meets_spec` are about.  Groups shared between
    children, merged and split again by additions and removals, never leak another child's dependencies or
    another group's redundancy semantics into the evaluation.  `eff` supplies per-dependency facts that are not part
    of the object's identity (is its period closed now); it must keep child and group key (`KeepsShape`; `id` and
    `Cfg.eff` do). -/
theorem reachable_via_registry (ops : List ROp) (hn : ∀ x, ROp.add x ∈ ops → x.d.group ≠ some "")
    (node : Nat → Node) (eff : Dep → Dep) (he : KeepsShape eff) (dt : Aspect) (v : Nat) :
    isReachableR (ops.foldl applyOp {}) node eff dt v =
      isReachable (liveGraph node eff (ops.foldl liveAfter [])) dt v :=
  reachableR_eq (run_inv ops {} [] inv_empty hn) node he dt topFuel v

/-- **reachable_via_fresh_load** — the same for the registry a fresh load builds (`PushDependencyGroupsToRegistry`
    in any order), hence runtime history and fresh load of the same set answer every reachability question
    alike. -/
theorem reachable_via_fresh_load (ops : List ROp) (hn : ∀ x, ROp.add x ∈ ops → x.d.group ≠ some "")
    (todo : List (Nat × GKey)) (hnd : todo.Nodup)
    (hcov : ∀ ck, ck ∈ todo ↔ ∃ x ∈ ops.foldl liveAfter [], (x.d.child, x.d.key) = ck)
    (node : Nat → Node) (eff : Dep → Dep) (he : KeepsShape eff) (dt : Aspect) (v : Nat) :
    isReachableR (ops.foldl applyOp {}) node eff dt v =
      isReachableR (pushAll (ops.foldl liveAfter []) {} todo) node eff dt v := by
  have h1 : Inv (ops.foldl applyOp {}) (ops.foldl liveAfter []) := run_inv ops {} [] inv_empty hn
  have h2 := fresh_load_spec _ h1.lnodup h1.names todo hnd hcov
  unfold isReachableR
  rw [reachableR_eq h1 node he, reachableR_eq h2 node he]

/-- **registry_query_meets_spec** — the specification predicate of a query accepts the answers computed on the
    registry's group objects after every runtime sequence whose live graph is acyclic and at most 256 levels
    deep (`eff`: which periods are closed now, or the identity). -/
theorem registry_query_meets_spec (n : Nat) (ops : List ROp) (hn : ∀ x, ROp.add x ∈ ops → x.d.group ≠ some "")
    (node : Nat → Node) (eff : Dep → Dep) (he : KeepsShape eff) (rank : Nat → Nat)
    (hr : Ranked (liveGraph node eff (ops.foldl liveAfter [])) rank) (hdepth : ∀ v, rank v ≤ 256) :
    specQuery n (liveGraph node eff (ops.foldl liveAfter []))
      (isReachableR (ops.foldl applyOp {}) node eff)
      (fun v => (depsOf (liveGraph node eff (ops.foldl liveAfter [])) v).length) = none := by
  have : isReachableR (ops.foldl applyOp {}) node eff = isReachable (liveGraph node eff (ops.foldl liveAfter [])) := by
    funext dt v; exact reachable_via_registry ops hn node eff he dt v
  rw [this]
  exact model_query_meets_spec n _ rank hr hdepth

/-- **parents_via_registry** — `Checkable::GetParents()` as the code computes it (the parents named by the composite
    keys of every group object the checkable holds, `DependencyGroup::LoadParents`) is, after every runtime
    sequence, exactly the set of parents of the checkable's live dependencies — what `edges_equal_live_set` demands
    (`parentsSpec`): sharing a group with other children adds no foreign parent, removals leave no stale key. -/
theorem parents_via_registry (ops : List ROp) (hn : ∀ x, ROp.add x ∈ ops → x.d.group ≠ some "") (v p : Nat) :
    p ∈ parentsR (ops.foldl applyOp {}) v ↔ ∃ x ∈ ops.foldl liveAfter [], x.d.child = v ∧ x.d.parent = p :=
  mem_parentsR (run_inv ops {} [] inv_empty hn) v p

/-! ## histories and registry side by side -/

/-- **history_queries_via_registry** — the two models composed: run ANY history (loads / runtime creations with the
    cycle check, removals, state and period changes, queries, read-outs) and drive the registry model with the same
    operations (`hrunR`: every dependency of an accepted batch through `AddDependency`, every removal through
    `RemoveDependency`; refused batches touch nothing).  After every such history — hence at every query point, each
    prefix being a history — `IsReachable` evaluated over the registry's group objects answers, for every aspect and
    checkable, exactly what the history model answers (the function `history_meets_spec` is about), and the history
    state is the one of `history_stays_acyclic`.  Hypothesis `FreshRun`: input well-formedness only — a batch brings
    NEW Dependency objects (ids pairwise different and not live) with non-empty redundancy group names. -/
theorem history_queries_via_registry (n : Nat) (node : Nat → Node) (ops : List HOp)
    (hf : FreshRun n { cfg := { node := node } } ops) (dt : Aspect) (v : Nat) :
    let fin := hrunR n { cfg := { node := node } } {} ops
    isReachableR fin.2 fin.1.cfg.node fin.1.cfg.eff dt v = isReachable fin.1.cfg.graph dt v ∧
    fin.1 = ops.foldl (fun hs op => (hstep n hs op).1) ({ cfg := { node := node } } : HState) := by
  intro fin
  exact ⟨query_via_registry (j_run n ops _ _ (j_init node) hf) dt v, hrunR_fst n ops _ _⟩

-- non-vacuity: the example history of `HistoryExamples` below is well-formed, and its registry ends with one group
example : FreshRun 4 { cfg := { node := fun _ => { isService := false, host := none, checked := true, stateRaw := 0, hard := true } } }
    [.load [(0, { child := 1, parent := 0, group := none, stateFilter := 16, ignoreSoft := false, periodClosed := false,
                  disableChecks := true, disableNotifications := true })], .query, .remove 0] := by
  refine ⟨⟨by decide, ?_, ?_⟩, trivial, trivial, trivial⟩
  · intro x hx; simp at hx; subst hx; simp
  · intro x hx; simp at hx; subst hx; simp

/-! ## non-vacuity of the registry theorems -/

section RegistryExamples

def rx (id c p : Nat) (grp : Option String) (isf : Bool) : LDep :=
  { id := id, d := { child := c, parent := p, group := grp, stateFilter := 16, ignoreSoft := isf, periodClosed := false,
                     disableChecks := true, disableNotifications := true } }

/-- children 2 and 3 both depend on {0, 1} in redundancy group "g1": one shared group with 4 members. -/
def exOps : List ROp :=
  [ROp.add (rx 0 2 0 (some "g1") false), ROp.add (rx 1 2 1 (some "g1") false),
   ROp.add (rx 2 3 0 (some "g1") false), ROp.add (rx 3 3 1 (some "g1") false)]

example : ((exOps.foldl applyOp {}).registry.map (fun g : Group => g.members.length)) = [4] := by decide
-- removing one member of child 2 splits the group; adding it back (new object) merges again
example : (((exOps ++ [ROp.remove (rx 0 2 0 (some "g1") false)]).foldl applyOp {}).registry.map (fun g : Group => g.members.length)) = [2, 1] := by decide
example : (((exOps ++ [ROp.remove (rx 0 2 0 (some "g1") false), ROp.add (rx 4 2 0 (some "g1") false)]).foldl applyOp {}).registry.map
    (fun g : Group => g.members.length)) = [4] := by decide
-- the per-child view after the removal
example : ((viewDeps ((exOps ++ [ROp.remove (rx 0 2 0 (some "g1") false)]).foldl applyOp {}) 2 (.named "g1")).map (·.id)) = [1] := by decide
-- duplicates outside a redundancy group with different ignore_soft_states: one group, two keys
example : (([ROp.add (rx 0 1 0 none false), ROp.add (rx 1 1 0 none true)].foldl applyOp {}).registry.map
    (fun g : Group => (g.ident.2.length, g.members.length))) = [(2, 2)] := by decide
-- the hypothesis of `registry_refines_set` holds for `exOps`
example : ∀ x, ROp.add x ∈ exOps → x.d.group ≠ some "" := by
  intro x hx
  simp only [exOps, List.mem_cons, List.not_mem_nil, or_false, ROp.add.injEq] at hx
  rcases hx with rfl | rfl | rfl | rfl <;> decide
-- a fresh load of the same four dependencies gives the same single group
example : ((pushAll ((exOps.foldl liveAfter [])) {} [(2, .named "g1"), (3, .named "g1")]).registry.map
    (fun g : Group => g.members.length)) = [4] := by decide

-- reachability through the registry: host 1 hard Down ⇒ child 2 (redundancy group over {0, 1}) stays reachable,
-- after member 0 is removed it is not; a plain dependency of child 3 on host 1 makes child 3 unreachable
def rxNode : Nat → Node
  | 1 => { isService := false, host := none, checked := true, stateRaw := 2, hard := true }
  | _ => { isService := false, host := none, checked := true, stateRaw := 0, hard := true }
example : isReachableR (exOps.foldl applyOp {}) rxNode id .state 2 = true := by decide
example : isReachableR ((exOps ++ [ROp.remove (rx 0 2 0 (some "g1") false)]).foldl applyOp {}) rxNode id .state 2 = false := by decide
example : isReachableR ((exOps ++ [ROp.add (rx 5 3 1 none false)]).foldl applyOp {}) rxNode id .state 3 = false := by decide
example : isReachableR ((exOps ++ [ROp.add (rx 5 3 1 none false)]).foldl applyOp {}) rxNode id .state 2 = true := by decide

example : parentsR (exOps.foldl applyOp {}) 2 = [0, 1] := by decide
example : parentsR ((exOps ++ [ROp.remove (rx 0 2 0 (some "g1") false)]).foldl applyOp {}) 2 = [1] := by decide
example : parentsR ((exOps ++ [ROp.remove (rx 0 2 0 (some "g1") false)]).foldl applyOp {}) 3 = [0, 1] := by decide

end RegistryExamples

/-! ## non-vacuity: concrete states meeting the hypotheses, and wrong traces the spec rejects -/

section Examples

/-- h0, h1 hosts; s2 a service of h0; h3 a host.  s2 depends on h1 (plain) and, in redundancy group
    "dns", on h1 and h3; h1 depends on h0 (plain).  h1 is hard Down, h3 and h0 are Up. -/
def exNode : Nat → Node
  | 0 => { isService := false, host := none, checked := true, stateRaw := 0, hard := true }
  | 1 => { isService := false, host := none, checked := true, stateRaw := 2, hard := true }
  | 2 => { isService := true, host := some 0, checked := true, stateRaw := 0, hard := true }
  | _ => { isService := false, host := none, checked := true, stateRaw := 0, hard := true }

def exDep (c p : Nat) (grp : Option String) (dn : Bool) : Dep :=
  { child := c, parent := p, group := grp, stateFilter := 16, ignoreSoft := true, periodClosed := false,
    disableChecks := true, disableNotifications := dn }

def exG : Graph :=
  { node := exNode,
    deps := [exDep 2 1 (some "dns") true, exDep 2 3 (some "dns") true, exDep 1 0 none true] }

/-- the same with the plain dependency s2 → h1 added. -/
def exG' : Graph := { exG with deps := exDep 2 1 none false :: exG.deps }

def exRank : Nat → Nat | 0 => 0 | 1 => 1 | 2 => 2 | _ => 0

example : Ranked exG' exRank ∧ ∀ v, exRank v ≤ 256 := by
  constructor
  · intro d hd
    simp only [exG', exG, List.mem_cons, List.not_mem_nil, or_false] at hd
    rcases hd with rfl | rfl | rfl | rfl <;> decide
  · intro v; unfold exRank; split <;> omega

-- redundancy group: one of two parents Down ⇒ still reachable; plain dependency on the Down parent ⇒ not,
-- except for notifications, which that dependency does not disable
example : isReachable exG .state 2 = true := by decide
example : isReachable exG' .state 2 = false := by decide
example : isReachable exG' .checkExec 2 = false := by decide
example : (Aspect.all.map (fun dt => isReachable exG' dt 1)) = [true, true, true] := by decide
-- every disjunct of `available_spec` is attainable, and so is unavailability
example : available exG .state (exDep 2 1 none true) = false := by decide
example : available exG .notification (exDep 2 1 none false) = true := by decide
example : available exG .state { exDep 2 1 none true with stateFilter := 32 } = true := by decide
example : available exG .state { exDep 2 1 none true with periodClosed := true } = true := by decide
-- the spec predicate rejects a wrong trace: claiming s2 reachable in `exG'` (state aspect)
example : specQuery 4 exG' (fun dt v => if dt = .state ∧ v = 2 then true else isReachable exG' dt v)
    (fun v => (depsOf exG' v).length) = some .reachState := by decide
-- … and a wrong dependency count
example : specQuery 4 exG (isReachable exG) (fun _ => 0) = some .liveSet := by decide
-- and accepts the model's answers (instance of `model_query_meets_spec`)
example : specQuery 4 exG' (isReachable exG') (fun v => (depsOf exG' v).length) = none := by decide

-- cycle checker: the example graph loads; closing a cycle h0 → s2 (through the implicit edge s2 → h0)
-- or h0 → h1 is rejected at runtime; a self-dependency is rejected
def exEmpty : Graph := { exG with deps := [] }
example : (cycleCheck exEmpty exG'.deps 4).accepted = true := by decide
example : cycleCheck exG' [exDep 0 2 none true] 4 = .cycle := by decide
example : cycleCheck exG' [exDep 0 1 none true] 4 = .cycle := by decide
example : cycleCheck exG' [exDep 3 3 none true] 4 = .cycle := by decide
example : (cycleCheck exG' [exDep 3 0 none true] 4).accepted = true := by decide
example : WellFormed exEmpty := by
  intro v h h1 h2
  match v with
  | 0 | 1 | (n + 3) => simp [exEmpty, exG, exNode] at h1
  | 2 => simp [exEmpty, exG, exNode] at h2; subst h2; rfl
-- the spec's own acyclicity decision agrees and rejects an accepted cyclic load
example : acyclicSpec 4 exG' = true := by decide
example : Closed 4 (withNew exG' [exDep 0 2 none true]) := by
  constructor
  · intro d hd
    simp only [withNew, exG', exG, List.cons_append, List.nil_append, List.mem_cons, List.not_mem_nil, or_false] at hd
    rcases hd with rfl | rfl | rfl | rfl | rfl <;> decide
  · intro v h h1 h2
    match v with
    | 0 | 1 | (k + 3) => simp [withNew, exG', exG, exNode] at h1
    | 2 => simp [withNew, exG', exG, exNode] at h2; subst h2; decide
example : specLoad 4 (withNew exG' [exDep 0 2 none true]) true = some .cycleRejected := by decide
-- the fuel branch: a 2-cycle built behind the checker's back answers "unreachable"
set_option maxRecDepth 20000 in
example : isReachable { exG with deps := [exDep 0 1 none true, exDep 1 0 none true] } .checkExec 0 = false := by decide

end Examples

/-! ## non-vacuity of the history theorems -/

section HistoryExamples

def hxDep (c p : Nat) (grp : Option String) (per : Option Nat) : Dep :=
  { child := c, parent := p, group := grp, stateFilter := 16, ignoreSoft := false, periodClosed := false,
    disableChecks := true, disableNotifications := true, period := per }

/-- hosts 0, 1, 3 and the service 2 of host 0.  Loaded: 2 → 1 (plain, period 0) and 3 → 1 in group "g"; then a
    runtime creation 0 → 2 that closes a cycle through the implicit edge 2 ~> 0 (refused), host 1 goes hard
    Down, period 0 closes, the first dependency is removed. -/
def hxOps : List HOp :=
  [.load [(0, hxDep 2 1 none (some 0)), (1, hxDep 3 1 (some "g") none)], .edges, .query,
   .load [(2, hxDep 0 2 none none)], .edges,
   .setState 1 true 2 true, .query, .setPeriod 0 true, .query, .remove 0, .edges, .query]

def hxInit : HState := { cfg := { node := exNode } }

-- the hypothesis of `history_meets_spec` holds
example : WellFormed { node := exNode, deps := [] } := by
  intro v h h1 h2
  match v with
  | 0 | 1 | (n + 3) => simp [exNode] at h1
  | 2 => simp [exNode] at h2; subst h2; rfl

-- what the history does: the cyclic creation is refused, the Down parent makes both children unreachable,
-- closing the period frees the service again, the removal leaves one reverse dependency on host 1
example : (hrun 4 hxInit hxOps).filterMap (fun o => match o with | .load _ acc _ => some acc | _ => none) = [true, false] := by
  decide
example : ((hxOps.take 7).foldl (fun hs op => (hstep 4 hs op).1) hxInit).cfg.graph.deps.length = 2 := by decide
example : (Aspect.all.map (fun dt => isReachable ((hxOps.take 7).foldl (fun hs op => (hstep 4 hs op).1) hxInit).cfg.graph dt 2))
    = [false, false, false] := by decide
example : isReachable ((hxOps.take 9).foldl (fun hs op => (hstep 4 hs op).1) hxInit).cfg.graph .state 2 = true := by decide
example : (hxOps.foldl (fun hs op => (hstep 4 hs op).1) hxInit).reverse 1 = [1] := by decide
example : (hxOps.foldl (fun hs op => (hstep 4 hs op).1) hxInit).children 1 = [3] := by decide
-- the specification rejects wrong histories: a stale reverse dependency after the removal …
example : specEdges 4 [(1, hxDep 3 1 (some "g") none)] (fun v => if v = 3 then [1] else [])
    (fun v => if v = 1 then [3] else []) (fun v => if v = 1 then [0, 1] else []) = some .edges := by decide
-- … a missing parent …
example : specEdges 4 [(1, hxDep 3 1 (some "g") none)] (fun _ => [])
    (fun v => if v = 1 then [3] else []) (fun v => if v = 1 then [1] else []) = some .edges := by decide
-- … an accepted cyclic creation, and a refused one that nevertheless left its dependency behind
example : specObs 4 ((hxOps.take 3).foldl (fun hs op => (hstep 4 hs op).1) hxInit).cfg
    (.load [(2, hxDep 0 2 none none)] true (fun _ => 0)) = some .cycleRejected := by decide
example : specObs 4 ((hxOps.take 3).foldl (fun hs op => (hstep 4 hs op).1) hxInit).cfg
    (.load [(2, hxDep 0 2 none none)] false (fun v => if v = 0 then 1 else if v = 2 then 1 else if v = 3 then 1 else 0))
    = some .refusedUnchanged := by decide
-- and the correct observations pass
example : specEdges 4 [(1, hxDep 3 1 (some "g") none)] (fun v => if v = 3 then [1] else [])
    (fun v => if v = 1 then [3] else []) (fun v => if v = 1 then [1] else []) = none := by decide

end HistoryExamples

end Icinga.C07

/-
  C10 — property theorems.  Every `theorem` in this file is a proof obligation of the check:
  `./check C10` lists them, runs `#print axioms` on each and fails if a required one is missing.
  Helper lemmas live in IcingaProofs/C10/Lemmas.lean.
-/
import IcingaProofs.C10.Lemmas

namespace Icinga.C10

/-- A run-once, active object called "h1". -/
def exCfg : ObjCfg := { name := [0x68, 0x31], runOnce := true, active := true }

/-- An object state without notification / check bookkeeping. -/
def ob (p : Bool) (pc rc : Nat) : Obj := { paused := p, pauses := pc, resumes := rc }

/-- The zone's members reach `UpdateObjectAuthority` in the iteration order of a `std::set<Endpoint::Ptr>`
    (by address, different on every node): the verdict does not depend on that order. -/
theorem authority_order_irrelevant (ms₁ ms₂ : List Name) (h : ms₁.Perm ms₂) (self : Name) (conn : Name → Bool)
    (start now : Int) (name : Name) :
    authority (some ms₁) self conn start now name = authority (some ms₂) self conn start now name := by
  have hp : (candidates ms₁ self conn).Perm (candidates ms₂ self conn) := h.filter _
  simp only [authority, sortNames_congr hp, hp.length_eq, h.length_eq]

/-- **exactly_one.**  Two distinct endpoints of a two-member zone that see each other: for *every* object name —
    whatever the iteration order of the members on either node, whatever the start times and clocks — both
    decide, and exactly one of them decides "authority". -/
theorem exactly_one (nA nB : Name) (hne : nA ≠ nB) (msA msB : List Name)
    (hA : msA.Perm [nA, nB]) (hB : msB.Perm [nA, nB])
    (connA connB : Name → Bool) (hcA : connA nB = true) (hcB : connB nA = true)
    (startA nowA startB nowB : Int) (name : Name) :
    ∃ a b, authority (some msA) nA connA startA nowA name = .set a ∧
           authority (some msB) nB connB startB nowB name = .set b ∧ a = !b := by
  rw [authority_order_irrelevant msA _ hA, authority_order_irrelevant msB _ hB,
    authority_two_sees nA nB nA nB (Or.inl ⟨rfl, rfl⟩) connA hcA,
    authority_two_sees nA nB nB nA (Or.inr ⟨rfl, rfl⟩) connB hcB]
  exact ⟨_, _, rfl, rfl, own_xor nA nB name hne⟩

example : ∃ a b, authority (some [[0x62], [0x61]]) [0x61] (· == [0x62]) 100 100 [0x68, 0x31] = .set a ∧
    authority (some [[0x61], [0x62]]) [0x62] (· == [0x61]) 0 5 [0x68, 0x31] = .set b ∧ a = !b :=
  exactly_one [0x61] [0x62] (by decide) _ _ (List.Perm.swap _ _ _) (List.Perm.refl _) _ _ (by decide) (by decide) _ _ _ _ _

/-- **exactly_one_general.**  Any number of members that all see each other: every one of them decides,
    and the one that decides "authority" is the same member `o` of the zone for all of them (names being the
    identities of endpoints, exactly one is active).  The two-member property is the case `ms.length = 2`. -/
theorem exactly_one_general (ms : List Name) (hne : ms ≠ []) (name : Name) :
    ∃ o ∈ ms, ∀ self ∈ ms, ∀ (msS : List Name) (conn : Name → Bool) (start now : Int),
      msS.Perm ms → (∀ e ∈ ms, e ≠ self → conn e = true) →
      authority (some msS) self conn start now name = .set (o == self) := by
  have hsne : sortNames ms ≠ [] := by
    intro h
    have := (sortNames_perm ms).length_eq
    rw [h] at this
    exact hne (List.length_eq_zero_iff.1 this.symm)
  obtain ⟨o, ho⟩ := ownerOf_some hsne name
  refine ⟨o, (sortNames_perm ms).mem_iff.1 (ownerOf_mem ho), ?_⟩
  intro self hself msS conn start now hperm hconn
  rw [authority_order_irrelevant msS ms hperm]
  have hc : candidates ms self conn = ms := by
    apply candidates_all
    intro e he
    by_cases h : e = self
    · exact Or.inl h
    · exact Or.inr (hconn e he h)
  have hcold : coldStart ms.length ms.length start now = false := by
    by_cases h1 : ms.length > 1
    · have : ¬ ms.length ≤ 1 := by omega
      simp [coldStart, this]
    · simp [coldStart, h1]
  simp only [authority, hc, hcold, ho]
  simp

example : ∃ o ∈ [[0x61], [0x62], [0x63]], ∀ self ∈ [[0x61], [0x62], [0x63]], ∀ (msS : List Name) (conn : Name → Bool)
    (start now : Int), msS.Perm [[0x61], [0x62], [0x63]] → (∀ e ∈ [[0x61], [0x62], [0x63]], e ≠ self → conn e = true) →
    authority (some msS) self conn start now [0x68, 0x31] = .set (o == self) :=
  exactly_one_general [[0x61], [0x62], [0x63]] (by decide) [0x68, 0x31]

/-- **same_split_independently.**  Two nodes whose candidate sets (connected members plus self) are the same *set*
    compute the same owner for every name, from the name and that set alone: neither the iteration order,
    nor the start times, nor the clocks enter.  Whenever a node decides, its decision is "the owner is me". -/
theorem same_split_independently (ms₁ ms₂ : List Name) (self₁ self₂ : Name) (conn₁ conn₂ : Name → Bool)
    (s₁ n₁ s₂ n₂ : Int) (name : Name) (a₁ a₂ : Bool)
    (h : (candidates ms₁ self₁ conn₁).Perm (candidates ms₂ self₂ conn₂))
    (h₁ : authority (some ms₁) self₁ conn₁ s₁ n₁ name = .set a₁)
    (h₂ : authority (some ms₂) self₂ conn₂ s₂ n₂ name = .set a₂) :
    ∃ o, ownerOf (sortNames (candidates ms₁ self₁ conn₁)) name = some o ∧
         ownerOf (sortNames (candidates ms₂ self₂ conn₂)) name = some o ∧
         a₁ = (o == self₁) ∧ a₂ = (o == self₂) := by
  rw [← sortNames_congr h]
  simp only [authority] at h₁ h₂
  rw [← sortNames_congr h] at h₂
  split at h₁
  · cases h₁
  · split at h₂
    · cases h₂
    · cases ho : ownerOf (sortNames (candidates ms₁ self₁ conn₁)) name with
      | none => simp [ho] at h₁
      | some o =>
        simp only [ho, Verdict.set.injEq] at h₁ h₂
        exact ⟨o, rfl, rfl, h₁.symm, h₂.symm⟩

example : ∃ o, ownerOf (sortNames (candidates [[0x62], [0x61]] [0x61] (fun _ => true))) [0x68, 0x31] = some o ∧
    ownerOf (sortNames (candidates [[0x61], [0x62]] [0x62] (fun _ => true))) [0x68, 0x31] = some o ∧
    false = (o == [0x61]) ∧ true = (o == [0x62]) :=
  same_split_independently [[0x62], [0x61]] [[0x61], [0x62]] [0x61] [0x62] (fun _ => true) (fun _ => true) 0 0 5 9
    [0x68, 0x31] false true (List.Perm.swap _ _ _) (by decide) (by decide)

/-- **alone_after_grace.**  The peer(s) disconnected and the start-up grace period over: the remaining endpoint
    decides "authority" for every name. -/
theorem alone_after_grace (ms : List Name) (self : Name) (conn : Name → Bool) (start now : Int) (name : Name)
    (hnd : ms.Nodup) (hself : self ∈ ms) (hconn : ∀ e ∈ ms, e ≠ self → conn e = false)
    (hstart : start ≠ 0) (hage : 30 ≤ now - start) :
    authority (some ms) self conn start now name = .set true := by
  have hc := candidates_alone ms self conn hnd hself hconn
  have hcold : coldStart ms.length 1 start now = false := by
    have : ¬ (now - start < 30) := by omega
    simp [coldStart, hstart, this]
  simp only [authority, hc, List.length_cons, List.length_nil, Nat.zero_add, hcold]
  simp [sortNames, insertName, ownerOf_singleton]

example : authority (some [[0x61], [0x62]]) [0x62] (fun _ => false) 1000 1030 [0xff] = .set true :=
  alone_after_grace _ _ _ _ _ _ (by decide) (by decide) (by intros; rfl) (by decide) (by decide)

/-- **cold_start_no_change.**  More than one member, nobody else connected, and the process younger than 30 s (or its
    start time not yet known): the run decides nothing, and no object is touched. -/
theorem cold_start_no_change (ms : List Name) (self : Name) (conn : Name → Bool) (start now : Int) (name : Name)
    (hnd : ms.Nodup) (hself : self ∈ ms) (hmany : 1 < ms.length) (hconn : ∀ e ∈ ms, e ≠ self → conn e = false)
    (hyoung : start = 0 ∨ now - start < 30) (c : ObjCfg) (o : Obj) :
    authority (some ms) self conn start now name = .keep ∧
    applyVerdict c o (authority (some ms) self conn start now name) = o := by
  have hc := candidates_alone ms self conn hnd hself hconn
  have hcold : coldStart ms.length 1 start now = true := by
    rcases hyoung with h | h <;> simp [coldStart, hmany, h]
  have : authority (some ms) self conn start now name = .keep := by
    simp only [authority, hc, List.length_cons, List.length_nil, Nat.zero_add, hcold]
    simp
  rw [this]
  exact ⟨rfl, by simp [applyVerdict]⟩

example : authority (some [[0x61], [0x62]]) [0x61] (fun _ => false) 1000 1029 [0x68] = .keep :=
  (cold_start_no_change _ _ _ _ _ _ (by decide) (by decide) (by decide) (by intros; rfl) (Or.inr (by decide))
    { name := [], runOnce := true, active := true } (ob true 0 0)).1

/-- **no_zone_all_active.**  Without a local zone every run decides "authority" for every name, and after one run
    over any set of objects every active run-once object is unpaused. -/
theorem no_zone_all_active (self : Name) (conn : List Client) (start now : Int) (cfgs : List ObjCfg) (objs : List Obj) :
    (∀ name, authority none self (connectedTo conn) start now name = .set true) ∧
    ∀ (i : Nat) (c : ObjCfg) (o : Obj),
      cfgs[i]? = some c →
      (Node.update cfgs { zone := none, self := self, clients := conn, start := start, objs := objs } now).objs[i]? = some o →
      touched c = true → o.paused = false := by
  refine ⟨fun _ => rfl, ?_⟩
  intro i c o hc ho ht
  simp only [Node.update, authority] at ho
  rw [List.getElem?_zipWith] at ho
  rw [hc] at ho
  cases hoi : objs[i]? with
  | none => simp [hoi] at ho
  | some o0 =>
    simp only [hoi, Option.some.injEq] at ho
    simp [applyVerdict, ht] at ho
    rw [← ho, setAuthority_paused]; rfl

example : (Node.update [exCfg] { zone := none, self := [0x61], clients := [], start := 0, objs := [fresh exCfg] } 7).objs
    = [(ob false 0 1)] := by decide

/-- A zone of one's own (one member) behaves the same: always "authority", never a cold start. -/
theorem single_member_all_active (self : Name) (conn : Name → Bool) (start now : Int) (name : Name) :
    authority (some [self]) self conn start now name = .set true :=
  authority_single self conn start now name

/-- The `% 0` of apilistener-authority.cpp:71 is unreachable when the local endpoint is a member of its zone. -/
theorem never_undefined (ms : List Name) (self : Name) (conn : Name → Bool) (start now : Int) (name : Name)
    (hself : self ∈ ms) : authority (some ms) self conn start now name ≠ .undefined := by
  have hmem : self ∈ candidates ms self conn := by
    simp [candidates, List.mem_filter, hself]
  have hne : sortNames (candidates ms self conn) ≠ [] := by
    intro h
    have := (sortNames_perm (candidates ms self conn)).mem_iff.2 hmem
    rw [h] at this
    simp at this
  obtain ⟨o, ho⟩ := ownerOf_some hne name
  simp only [authority, ho]
  split <;> simp

example : authority (some [[0x62], [0x61]]) [0x61] (fun _ => false) 0 0 [0xff] ≠ .undefined :=
  never_undefined _ _ _ _ _ _ (by decide)

/-- **pause_resume_once_per_change.**  Over any sequence of authority decisions applied to an object the number of
    `Resume()` calls is the number of false→true changes of the authority and the number of `Pause()` calls the
    number of true→false changes (the authority before the sequence being `!paused`); afterwards `paused` is the
    negation of the last decision. -/
theorem pause_resume_once_per_change (ds : List Bool) : ∀ (o : Obj),
    (ds.foldl setAuthority o).resumes = o.resumes + ups (!o.paused) ds ∧
    (ds.foldl setAuthority o).pauses = o.pauses + downs (!o.paused) ds ∧
    (∀ a, ds.getLast? = some a → (ds.foldl setAuthority o).paused = !a) := by
  induction ds with
  | nil => intro o; simp [ups, downs]
  | cons d ds ih =>
    intro o
    obtain ⟨h1, h2, h3⟩ := ih (setAuthority o d)
    rw [setAuthority_paused] at h1 h2
    simp only [List.foldl_cons, Bool.not_not] at h1 h2 ⊢
    refine ⟨?_, ?_, ?_⟩
    · rw [h1]; cases d <;> cases hp : o.paused <;> simp [setAuthority, ups, hp] <;> omega
    · rw [h2]; cases d <;> cases hp : o.paused <;> simp [setAuthority, downs, hp] <;> omega
    · intro a ha
      cases ds with
      | nil =>
        simp at ha
        subst ha
        simp [setAuthority_paused]
      | cons d' ds' => exact h3 a (by simpa [List.getLast?_cons_cons] using ha)

example : ([true, true, false, false, true].foldl setAuthority (ob true 0 0)) = (ob false 1 2) := by decide

/-- **overlapping_runs_are_one.**  What the `ObjectLock` in `SetAuthority` (configobject.cpp:446, test *inside* the lock)
    guarantees for two overlapping authority runs that decide the same value: the second call finds nothing to do, so
    the pair pauses / resumes the object exactly as often as one call (the harness checks this against two real
    threads blocked on the object's lock). -/
theorem overlapping_runs_are_one (o : Obj) (v : Bool) : setAuthority (setAuthority o v) v = setAuthority o v := by
  unfold setAuthority
  cases v <;> cases hp : o.paused <;> simp [hp]

example : setAuthority (setAuthority (ob true 0 0) true) true = ob false 0 1 := by decide

/-- **paused_node_is_silent** ("a paused endpoint neither executes checks nor sends notifications for that object").
    For an object that is paused on a node: a requested notification is not sent (it is skipped, or stashed while no
    authority run has completed yet), a due check is not executed, and on a node with a local endpoint the
    notification timer sends nothing for it either — whether or not an authority run has completed (`u`). -/
theorem paused_node_is_silent (u : Bool) (c : ObjCfg) (o : Obj) (hp : o.paused = true) :
    (requestObj u c o).execs = o.execs ∧ (dueObj c o).execs = o.execs ∧
    (ntimerObj u true c o).execs = o.execs :=
  ⟨(requestObj_props u c o).2.2.2.1 hp, (dueObj_props c o).2.2.2.1 hp, (ntimerObj_props u true c o).2.2.2.1 rfl hp⟩

/-- In the cold-start window (paused, no authority run completed yet) a requested notification is stashed and the
    notification timer leaves the stash alone and sends nothing: it waits for the authority decision. -/
theorem cold_start_notification_waits (c : ObjCfg) (o : Obj) (hk : c.kind = .notification) (hp : o.paused = true) :
    requestObj false c o = { o with stash := o.stash + 1 } ∧ ntimerObj false true c o = o := by
  unfold requestObj ntimerObj
  cases ha : c.active <;> simp [hk, hp]

example : ntimerObj false true { name := [0x6e], runOnce := true, active := true, kind := .notification }
    { paused := true, pauses := 0, resumes := 0, execs := 0, stash := 2 }
    = { paused := true, pauses := 0, resumes := 0, execs := 0, stash := 2 } := by decide

/-- **exactly_one_does_the_work.**  Two members that are settled with each other (`a.paused = !b.paused`, what
    `exactly_one` gives): a check of an active checkable that becomes due on both is executed by exactly one of them,
    and a notification requested on both (authority known, nothing stashed) is sent by exactly one of them. -/
theorem exactly_one_does_the_work (c : ObjCfg) (a b : Obj) (hab : a.paused = !b.paused) :
    (c.kind = .checkable → c.active = true →
      (dueObj c a).execs + (dueObj c b).execs = a.execs + b.execs + 1) ∧
    (c.kind = .notification → a.stash = 0 → b.stash = 0 →
      (requestObj true c a).execs + (requestObj true c b).execs = a.execs + b.execs + 1) := by
  unfold dueObj requestObj
  constructor
  · intro hk ha
    cases hb : b.paused <;> simp [hk, ha, hab, hb] <;> omega
  · intro hk hsa hsb
    cases hb : b.paused <;> simp [hk, hab, hb, hsa, hsb] <;> omega

/-- **one_round_settles** ("is active on exactly one endpoint", about the objects, not the verdicts).  From ANY state of the two
    members — whatever happened before, whatever the object's state, start times and clocks — once each of them holds at least
    one connection to the other and each has run `UpdateObjectAuthority` once (in either order), an active run-once object is
    active on exactly one of them; and every later run on either side leaves it there. -/
theorem one_round_settles (nA nB : Name) (hne : nA ≠ nB) (c : ObjCfg) (ht : touched c = true) (p : Pair)
    (hA : p.a.sees = true) (hB : p.b.sees = true) (nowA nowB : Int) :
    let p1 := step .pair nA nB c (step .pair nA nB c p (.upd .A nowA)) (.upd .B nowB)
    let p2 := step .pair nA nB c (step .pair nA nB c p (.upd .B nowB)) (.upd .A nowA)
    p1.a.obj.paused = !p1.b.obj.paused ∧ p2.a.obj.paused = !p2.b.obj.paused ∧
    ∀ (s : Side) (now : Int), (step .pair nA nB c p1 (.upd s now)).a.obj.paused = p1.a.obj.paused ∧
                              (step .pair nA nB c p1 (.upd s now)).b.obj.paused = p1.b.obj.paused := by
  have hx := own_xor nA nB c.name hne
  have vA : ∀ (h : Half), h.sees = true → ∀ now, (stepHalf .pair nA nB c .A h (.upd .A now)).obj.paused = !own nA nB c.name .A ∧
      (stepHalf .pair nA nB c .A h (.upd .A now)).sees = true := by
    intro h hs now
    refine ⟨?_, hs⟩
    simp only [stepHalf, authority_abs .pair nA nB hne .A h.sees h.start now c.name]
    rw [hs]
    simp [absVerdict, applyVerdict, ht, setAuthority_paused]
  have vB : ∀ (h : Half), h.sees = true → ∀ now, (stepHalf .pair nA nB c .B h (.upd .B now)).obj.paused = !own nA nB c.name .B ∧
      (stepHalf .pair nA nB c .B h (.upd .B now)).sees = true := by
    intro h hs now
    refine ⟨?_, hs⟩
    simp only [stepHalf, authority_abs .pair nA nB hne .B h.sees h.start now c.name]
    rw [hs]
    simp [absVerdict, applyVerdict, ht, setAuthority_paused]
  intro p1 p2
  have h1a : p1.a.obj.paused = !own nA nB c.name .A := by simp only [p1, step, Ev.side]; exact (vA p.a hA nowA).1
  have h1b : p1.b.obj.paused = !own nA nB c.name .B := by simp only [p1, step, Ev.side]; exact (vB p.b hB nowB).1
  have h2a : p2.a.obj.paused = !own nA nB c.name .A := by simp only [p2, step, Ev.side]; exact (vA p.a hA nowA).1
  have h2b : p2.b.obj.paused = !own nA nB c.name .B := by simp only [p2, step, Ev.side]; exact (vB p.b hB nowB).1
  have s1a : p1.a.sees = true := by simp only [p1, step, Ev.side]; exact (vA p.a hA nowA).2
  have s1b : p1.b.sees = true := by simp only [p1, step, Ev.side]; exact (vB p.b hB nowB).2
  refine ⟨by rw [h1a, h1b, hx], by rw [h2a, h2b, hx], ?_⟩
  intro s now
  cases s with
  | A => exact ⟨by simp only [step, Ev.side]; rw [(vA p1.a s1a now).1, h1a], by simp only [step, Ev.side]⟩
  | B => exact ⟨by simp only [step, Ev.side], by simp only [step, Ev.side]; rw [(vB p1.b s1b now).1, h1b]⟩

example : let p := step .pair [0x61] [0x62] exCfg (step .pair [0x61] [0x62] exCfg
      (step .pair [0x61] [0x62] exCfg (step .pair [0x61] [0x62] exCfg (initPair exCfg) (.link .A 2 true)) (.link .B 0 true))
      (.upd .A 7)) (.upd .B 9)
    p.a.obj.paused = true ∧ p.b.obj.paused = false := by decide

/-- **alone_after_grace_is_active** (about the object): from any state, a member of the two-member zone that holds no connection to
    the other one and whose start-up grace period is over has every active run-once object unpaused after one run. -/
theorem alone_after_grace_is_active (nA nB : Name) (hne : nA ≠ nB) (c : ObjCfg) (ht : touched c = true) (s : Side) (h : Half)
    (hs : h.sees = false) (now : Int) (hstart : h.start ≠ 0) (hage : 30 ≤ now - h.start) :
    (stepHalf .pair nA nB c s h (.upd s now)).obj.paused = false := by
  have hg : inGrace h.start now = false := by
    have : ¬ (now - h.start < 30) := by omega
    simp [inGrace, hstart, this]
  simp only [stepHalf, authority_abs .pair nA nB hne s h.sees h.start now c.name]
  rw [hs]
  simp [absVerdict, hg, applyVerdict, ht, setAuthority_paused]

/-- **connected_while_a_connection_is_left** ("the set of connected endpoints": an endpoint is connected as long as at least one of
    its connections is left).  Over ANY sequence of attach / remove events with arbitrary connection numbers (both members dial
    each other, a redundant connection is closed, an event is repeated …) on a member's connections to the other one, the member
    sees the other one afterwards iff there is a connection whose LAST event was "attach" (or that was open before and has had
    no event) — and the object is not touched by any of this. -/
theorem connected_while_a_connection_is_left (l : Layout) (nA nB : Name) (c : ObjCfg) (s : Side) (h : Half)
    (evs : List (Nat × Bool)) :
    let h' := evs.foldl (fun h e => stepHalf l nA nB c s h (.link s e.1 e.2)) h
    (h'.sees = true ↔ ∃ id, openAfter (decide (id ∈ h.conns)) id evs = true) ∧ h'.obj = h.obj ∧ h'.start = h.start := by
  have hfold : ∀ (evs : List (Nat × Bool)) (h : Half),
      (evs.foldl (fun h e => stepHalf l nA nB c s h (.link s e.1 e.2)) h) = { h with conns := applyLinks h.conns evs } := by
    intro evs
    induction evs with
    | nil => intro h; rfl
    | cons e evs ih =>
      intro h
      rw [List.foldl_cons, ih]
      simp only [stepHalf, applyLinks, List.foldl_cons]
  intro h'
  have hh : h' = { h with conns := applyLinks h.conns evs } := hfold evs h
  rw [hh]
  refine ⟨?_, rfl, rfl⟩
  simp only [Half.sees]
  constructor
  · intro hne
    cases hc : applyLinks h.conns evs with
    | nil => simp [hc] at hne
    | cons id rest => exact ⟨id, (mem_applyLinks evs h.conns id).1 (by simp [hc])⟩
  · rintro ⟨id, hid⟩
    have := (mem_applyLinks evs h.conns id).2 hid
    cases hc : applyLinks h.conns evs with
    | nil => simp [hc] at this
    | cons _ _ => simp

/-- Both members dialled each other (connections 0 and 1 attached), the redundant one is closed: still connected. -/
example : (([(0, true), (1, true), (0, false)] : List (Nat × Bool)).foldl
    (fun h e => stepHalf .pair [0x61] [0x62] exCfg .A h (.link .A e.1 e.2)) (initPair exCfg).a).sees = true := by decide

/-- **closing_one_of_several_changes_nothing.**  A member that holds a further connection to the other one and closes one
    (or attaches one more) decides exactly as before: the verdict of the next authority run — for every object, start time and
    clock — is the one it would have been without the event. -/
theorem closing_one_of_several_changes_nothing (l : Layout) (nA nB : Name) (c : ObjCfg) (s : Side) (h : Half)
    (id other : Nat) (up : Bool) (hother : other ∈ h.conns) (hne : other ≠ id) (now : Int) :
    stepHalf l nA nB c s (stepHalf l nA nB c s h (.link s id up)) (.upd s now)
      = { stepHalf l nA nB c s h (.upd s now) with conns := (stepHalf l nA nB c s h (.link s id up)).conns } := by
  have h1 : h.sees = true := by
    simp only [Half.sees]
    cases hc : h.conns with
    | nil => simp [hc] at hother
    | cons _ _ => rfl
  have h2 : (stepHalf l nA nB c s h (.link s id up)).sees = true := by
    have hm : other ∈ (stepHalf l nA nB c s h (.link s id up)).conns := by
      cases up
      · simp only [stepHalf]; exact (mem_setErase _ _ _).2 ⟨hother, hne⟩
      · simp only [stepHalf]; exact (mem_setInsert _ _ _).2 (Or.inr hother)
    simp only [Half.sees]
    cases hc : (stepHalf l nA nB c s h (.link s id up)).conns with
    | nil => simp [hc] at hm
    | cons _ _ => rfl
  simp only [stepHalf] at h2 ⊢
  simp only [h1, h2]

/-- **half_is_endpoint_set.**  The two-member system's "sees the other member" is `Endpoint::GetConnected()` of the node-level
    model (the one the driver runs next to the real nodes): an authority run of a `Node` whose client set holds exactly the
    member's connections to the other one decides what `stepHalf` decides. -/
theorem half_is_endpoint_set (l : Layout) (nA nB : Name) (c : ObjCfg) (s : Side) (h : Half) (now : Int) :
    (Node.update [c] { zone := zoneOf l nA nB s, self := selfOf nA nB s, start := h.start, objs := [h.obj],
                       clients := h.conns.map (fun i => (otherOf nA nB s, i)) } now).objs
      = [(stepHalf l nA nB c s h (.upd s now)).obj] := by
  have hf : connectedTo (h.conns.map (fun i => (otherOf nA nB s, i))) = (fun e => h.sees && e == otherOf nA nB s) := by
    funext e; rw [connectedTo_map]; rfl
  simp [Node.update, stepHalf, hf]

/-- **unseen_members_do_not_matter.**  A zone with further members that this node does not see (not connected) decides exactly
    like the two-member zone — cold start, alone after the grace period, split with the other member — for every name, start
    time and clock.  (The correspondence run evaluates the two-member specification on the real nodes of such zones for as
    long as no further member has been connected.) -/
theorem unseen_members_do_not_matter (nA nB : Name) (extras : List Name) (self : Name) (conn : Name → Bool)
    (hx : ∀ e ∈ extras, e ≠ self ∧ conn e = false) (start now : Int) (name : Name) :
    authority (some (nA :: nB :: extras)) self conn start now name = authority (some [nA, nB]) self conn start now name := by
  have hc : candidates (nA :: nB :: extras) self conn = candidates [nA, nB] self conn := by
    have he : extras.filter (fun e => e == self || conn e) = [] := by
      apply List.filter_eq_nil_iff.2
      intro e he
      obtain ⟨h1, h2⟩ := hx e he
      simp [h1, h2]
    simp only [candidates, List.filter_cons, he, List.filter_nil]
  have hcs : ∀ k, coldStart (nA :: nB :: extras).length k start now = coldStart [nA, nB].length k start now := by
    intro k; simp [coldStart]
  simp only [authority, hc, hcs]

example : authority (some [[0x61], [0x62], [0x63], [0x64]]) [0x62] (· == [0x61]) 0 5 [0x68, 0x31]
    = authority (some [[0x61], [0x62]]) [0x62] (· == [0x61]) 0 5 [0x68, 0x31] :=
  unseen_members_do_not_matter _ _ _ _ _ (by decide) _ _ _

/-- **restart_has_no_authority.**  However the process ended and whether or not its state file is restored into the new objects
    (`keep`), a run-once object comes back paused with no `Pause()`/`Resume()` call and no execution behind it — it waits for an
    authority run — and an active run-everywhere object comes back resumed exactly once. -/
theorem restart_has_no_authority (c : ObjCfg) (old : Obj) (keep : Bool) :
    freshLike c (restart c old keep) = true ∧
    (touched c = true → (restart c old keep).paused = true ∧ (restart c old keep).resumes = 0 ∧ (restart c old keep).pauses = 0) ∧
    (c.active = true → c.runOnce = false → (restart c old keep).paused = false ∧ (restart c old keep).resumes = 1) := by
  refine ⟨freshLike_restart c old keep, ?_, ?_⟩
  · intro ht
    simp only [touched, Bool.and_eq_true] at ht
    simp [restart, fresh, ht.1, ht.2]
  · intro ha hr
    simp [restart, fresh, ha, hr, setAuthority]

example : restart exCfg { paused := false, pauses := 3, resumes := 4, execs := 9, stash := 2 } true
    = { paused := true, pauses := 0, resumes := 0, execs := 0, stash := 2 } := by decide

/-- **runtime_created_object_settles** ("is active on exactly one endpoint", for objects that come into being while the cluster runs:
    comments, downtimes, API-created hosts …).  From ANY state of two members that hold a connection to each other — whatever
    authority runs, link changes and work happened before; no memory of an earlier run enters a decision — an active run-once object
    created at runtime on both is active on NEITHER right after the creation (no authority decision has been taken for it), and after
    the next authority run on each it is active on exactly one, with one `Resume()` call and no `Pause()` call in total. -/
theorem runtime_created_object_settles (nA nB : Name) (hne : nA ≠ nB) (c : ObjCfg) (ht : touched c = true) (p : Pair)
    (hA : p.a.sees = true) (hB : p.b.sees = true) (nowA nowB : Int) :
    let p0 := step .pair nA nB c (step .pair nA nB c p (.create .A)) (.create .B)
    let p1 := step .pair nA nB c (step .pair nA nB c p0 (.upd .A nowA)) (.upd .B nowB)
    (p0.a.obj.paused = true ∧ p0.b.obj.paused = true) ∧
    p1.a.obj.paused = !p1.b.obj.paused ∧
    p1.a.obj.resumes + p1.b.obj.resumes = 1 ∧ p1.a.obj.pauses = 0 ∧ p1.b.obj.pauses = 0 := by
  have hx := own_xor nA nB c.name hne
  have ht' := ht
  simp only [touched, Bool.and_eq_true] at ht'
  have hf : fresh c = { paused := true, pauses := 0, resumes := 0 } := by simp [fresh, ht'.1, ht'.2]
  intro p0 p1
  have e0a : p0.a = { p.a with obj := fresh c } := by simp [p0, step, Ev.side, stepHalf, created]
  have e0b : p0.b = { p.b with obj := fresh c } := by simp [p0, step, Ev.side, stepHalf, created]
  have e1a : p1.a.obj = setAuthority (fresh c) (own nA nB c.name .A) := by
    simp only [p1, step, Ev.side, stepHalf, authority_abs .pair nA nB hne .A _ _ _ c.name, e0a]
    simp [Half.sees] at hA ⊢
    simp [absVerdict, applyVerdict, ht, hA]
  have e1b : p1.b.obj = setAuthority (fresh c) (own nA nB c.name .B) := by
    simp only [p1, step, Ev.side, stepHalf, authority_abs .pair nA nB hne .B _ _ _ c.name, e0b]
    simp [Half.sees] at hB ⊢
    simp [absVerdict, applyVerdict, ht, hB]
  refine ⟨⟨by rw [e0a]; simp [hf], by rw [e0b]; simp [hf]⟩, ?_⟩
  rw [e1a, e1b, hf, hx]
  cases own nA nB c.name .B <;> simp [setAuthority]

/-- **created_object_one_owner_general** (the n-member form of `runtime_created_object_settles`).  Any number of zone members that all
    see each other: there is ONE member `o` of the zone such that, whichever member `self` runs `UpdateObjectAuthority` over an active
    run-once object that was created at runtime — in whatever iteration order, at whatever time — the object ends up unpaused there iff
    `self` is `o`, with one `Resume()` on `o`, none elsewhere and no `Pause()` anywhere; nothing of an object that had the name before
    (`old`) enters. -/
theorem created_object_one_owner_general (ms : List Name) (hne : ms ≠ []) (c : ObjCfg) (ht : touched c = true) :
    ∃ o ∈ ms, ∀ self ∈ ms, ∀ (msS : List Name) (conn : Name → Bool) (start now : Int) (old : Obj),
      msS.Perm ms → (∀ e ∈ ms, e ≠ self → conn e = true) →
      let o' := applyVerdict c (created c) (authority (some msS) self conn start now c.name)
      o'.paused = !(o == self) ∧ o'.pauses = 0 ∧ o'.resumes = (if o == self then 1 else 0) ∧
      -- nothing of the object that had the name before (`old`) enters
      o' = applyVerdict c (stepHalf .pair [] [] c .A { conns := [], start := 0, obj := old } (.create .A)).obj
             (authority (some msS) self conn start now c.name) := by
  obtain ⟨o, hom, ho⟩ := exactly_one_general ms hne c.name
  refine ⟨o, hom, ?_⟩
  intro self hself msS conn start now old hperm hconn
  have hv := ho self hself msS conn start now hperm hconn
  have ht' := ht
  simp only [touched, Bool.and_eq_true] at ht'
  have hf : created c = { paused := true, pauses := 0, resumes := 0 } := by simp [created, fresh, ht'.1, ht'.2]
  simp only [hv, applyVerdict, ht, hf, stepHalf]
  cases o == self <;> simp [setAuthority]

example : ∃ o ∈ [[0x61], [0x62], [0x63]], ∀ self ∈ [[0x61], [0x62], [0x63]], ∀ (msS : List Name) (conn : Name → Bool)
    (start now : Int) (old : Obj), msS.Perm [[0x61], [0x62], [0x63]] → (∀ e ∈ [[0x61], [0x62], [0x63]], e ≠ self → conn e = true) →
    let o' := applyVerdict exCfg (created exCfg) (authority (some msS) self conn start now exCfg.name)
    o'.paused = !(o == self) ∧ o'.pauses = 0 ∧ o'.resumes = (if o == self then 1 else 0) ∧
    o' = applyVerdict exCfg (stepHalf .pair [] [] exCfg .A { conns := [], start := 0, obj := old } (.create .A)).obj
           (authority (some msS) self conn start now exCfg.name) :=
  created_object_one_owner_general _ (by decide) exCfg rfl


/-- **pending_notification_requested_once** ("a paused endpoint [does not send] notifications for that object", for the notifications a
    checkable requests itself: suppressed-notifications timer, acknowledgement, hard state change of a processed result).  A member
    that is paused for the checkable requests nothing and changes nothing; of two settled members (`a.paused = !b.paused`, what
    `one_round_settles` gives) exactly one requests the notification; no check runs and the authority stays. -/
theorem pending_notification_requested_once (c : ObjCfg) (a b : Obj) :
    (a.paused = true → fireObj c a = a) ∧
    (c.kind = .checkable → c.active = true → a.paused = (!b.paused) →
      (fireObj c a).reqs + (fireObj c b).reqs = a.reqs + b.reqs + 1) ∧
    (fireObj c a).paused = a.paused ∧ (fireObj c a).execs = a.execs := by
  unfold fireObj
  refine ⟨?_, ?_, ?_, ?_⟩
  · intro hp; simp [hp]
  · intro hk ha hab
    cases hb : b.paused <;> simp [hk, ha, hab, hb] <;> omega
  · split <;> rfl
  · split <;> rfl


example : let p0 := step .pair [0x61] [0x62] exCfg (step .pair [0x61] [0x62] exCfg
      (step .pair [0x61] [0x62] exCfg (step .pair [0x61] [0x62] exCfg
        (step .pair [0x61] [0x62] exCfg (step .pair [0x61] [0x62] exCfg (initPair exCfg) (.link .A 0 true)) (.link .B 0 true))
        (.upd .A 7)) (.upd .B 9)) (.create .A)) (.create .B)
    let p1 := step .pair [0x61] [0x62] exCfg (step .pair [0x61] [0x62] exCfg p0 (.upd .A 20)) (.upd .B 21)
    p0.a.obj.paused = true ∧ p0.b.obj.paused = true ∧ p1.a.obj = ob true 0 0 ∧ p1.b.obj = ob false 0 1 := by decide

example : fireObj { name := [0x68], runOnce := true, active := true, kind := .checkable } (ob false 0 1)
    = { paused := false, pauses := 0, resumes := 1, reqs := 1 } ∧
    fireObj { name := [0x68], runOnce := true, active := true, kind := .checkable } (ob true 0 0) = ob true 0 0 := by decide

/-- The specification rejects a trace in which the member that is paused for a checkable requests the pending notification … -/
example :
    specTrace .pair { name := [0x68], runOnce := true, active := true, kind := .checkable }
      (specInit { name := [0x68], runOnce := true, active := true, kind := .checkable })
      [(.boot .A 1000 false, ob true 0 0, ob true 0 0),
       (.fire .A, { paused := true, pauses := 0, resumes := 0, reqs := 1 }, ob true 0 0)]
      = some .pausedNodeIsSilent := by decide

/-- … one in which a runtime-created object is active before any authority run has decided about it … -/
example :
    specTrace .pair exCfg (specInit exCfg)
      [(.boot .A 1000 false, ob true 0 0, ob true 0 0), (.create .A, ob false 0 1, ob true 0 0)]
      = some .freshAfterBoot := by decide

/-- … and one in which an object created after the first authority run stays paused on a member that is alone after the grace period
    (an authority run that only remembers that the set of endpoints has not changed). -/
example :
    specTrace .pair exCfg (specInit exCfg)
      [(.boot .A 1000 false, ob true 0 0, ob true 0 0), (.upd .A 1040, ob false 0 1, ob true 0 0),
       (.create .A, ob true 0 0, ob true 0 0), (.upd .A 1050, ob true 0 0, ob true 0 0)]
      = some .aloneAllActive := by decide

/-- The node-level events the driver replays next to the real nodes are the per-object functions of the two-member system applied to
    the addressed object and nothing else. -/
theorem node_create_fire_pointwise (cfgs : List ObjCfg) (n : Node) (i j : Nat) (c : ObjCfg) (o : Obj)
    (hc : cfgs[j]? = some c) (ho : n.objs[j]? = some o) :
    (n.create cfgs i).objs[j]? = some (if j == i then created c else o) ∧
    (n.fire cfgs i).objs[j]? = some (if j == i then fireObj c o else o) := by
  constructor
  · simpa [Node.create] using atList_getElem (fun c _ => created c) i cfgs 0 n.objs j c o hc ho
  · simpa [Node.fire] using atList_getElem fireObj i cfgs 0 n.objs j c o hc ho

/-- The node-level run is the per-object verdict applied to every object (the loop of :56-81). -/
theorem node_update_pointwise (cfgs : List ObjCfg) (n : Node) (now : Int) (i : Nat) (c : ObjCfg) (o : Obj)
    (hc : cfgs[i]? = some c) (ho : n.objs[i]? = some o) :
    (n.update cfgs now).objs[i]? =
      some (applyVerdict c o (authority n.zone n.self (connectedTo n.clients) n.start now c.name)) := by
  simp [Node.update, List.getElem?_zipWith, hc, ho]

/-- **model_trace_meets_spec** (the whole property as one statement).  For every layout of the property (no zone,
    a zone of one's own, one zone with both members), every two distinct endpoint names, every object (any name,
    run-once or run-everywhere, active or not) and every finite sequence of (re)starts — with new objects only or through the
    state file of the old process —, attach / remove events of arbitrarily numbered connections (an endpoint is connected while
    one is left), authority runs with arbitrary clocks and other events on both members, the observed trace of the model
    satisfies the executable specification `specTrace`: exactly one active whenever both are settled with each
    other, the same split every time, all active when alone after the grace period / without a zone, nothing
    changes during the cold start or without an authority run, `Pause`/`Resume` exactly once per change. -/
theorem model_trace_meets_spec (l : Layout) (nA nB : Name) (hne : nA ≠ nB) (c : ObjCfg) (es : List Ev) :
    specTrace l c (specInit c) (trace l nA nB c (initPair c) es) = none :=
  trace_rel l nA nB hne c es _ _ (rel_init nA nB c)

/-- Non-vacuity: a concrete history in which both members settle and split the object. -/
example :
    (trace .pair [0x61] [0x62] exCfg (initPair exCfg)
      [.boot .A 1000 false, .boot .B 1000 false, .link .A 0 true, .link .B 0 true, .upd .A 1001, .upd .B 1001]).getLast?
      = some (.upd .B 1001, (ob true 0 0), (ob false 0 1)) := by decide

/-- The specification is not vacuous: it rejects a trace in which both members end up active. -/
example :
    specTrace .pair exCfg (specInit exCfg)
      [(.boot .A 1000 false, (ob true 0 0), (ob true 0 0)), (.boot .B 1000 false, (ob true 0 0), (ob true 0 0)),
       (.link .A 0 true, (ob true 0 0), (ob true 0 0)), (.link .B 0 true, (ob true 0 0), (ob true 0 0)),
       (.upd .A 1001, (ob false 0 1), (ob true 0 0)), (.upd .B 1001, (ob false 0 1), (ob false 0 1))]
      = some .exactlyOne := by decide

/-- … one in which a member that closed ONE of its two connections to the other member takes everything over although the
    two still see each other … -/
example :
    specTrace .pair exCfg (specInit exCfg)
      [(.boot .A 1000 false, (ob true 0 0), (ob true 0 0)), (.boot .B 1000 false, (ob true 0 0), (ob true 0 0)),
       (.link .A 0 true, (ob true 0 0), (ob true 0 0)), (.link .A 1 true, (ob true 0 0), (ob true 0 0)),
       (.link .B 0 true, (ob true 0 0), (ob true 0 0)),
       (.upd .A 1040, (ob true 0 0), (ob true 0 0)), (.upd .B 1040, (ob true 0 0), (ob false 0 1)),
       (.link .A 0 false, (ob true 0 0), (ob false 0 1)),
       (.upd .A 1050, (ob false 0 1), (ob false 0 1))]
      = some .exactlyOne := by decide

/-- … one in which a process restarted through its state file comes back active without any authority decision … -/
example :
    specTrace .pair exCfg (specInit exCfg)
      [(.boot .A 1000 false, (ob true 0 0), (ob true 0 0)), (.upd .A 1040, (ob false 0 1), (ob true 0 0)),
       (.boot .A 1100 true, (ob false 0 0), (ob true 0 0))]
      = some .freshAfterBoot := by decide

/-- … and one in which `Resume()` ran twice for one change. -/
example :
    specTrace .noZone exCfg (specInit exCfg)
      [(.upd .A 5, (ob false 0 2), (ob true 0 0))] = some .oncePerChange := by decide

/-- … one in which a node sends a notification for an object that is paused on it (cold start, nothing decided yet) … -/
example :
    specTrace .pair { name := [0x6e], runOnce := true, active := true, kind := .notification }
      (specInit { name := [0x6e], runOnce := true, active := true, kind := .notification })
      [(.boot .A 1000 false, ob true 0 0, ob true 0 0),
       (.request .A, { paused := true, pauses := 0, resumes := 0, execs := 0, stash := 1 }, ob true 0 0),
       (.ntimer .A, { paused := true, pauses := 0, resumes := 0, execs := 1, stash := 0 }, ob true 0 0)]
      = some .pausedNodeIsSilent := by decide

/-- … and one in which the active node does not run a due check. -/
example :
    specTrace .noZone { name := [0x68], runOnce := true, active := true, kind := .checkable }
      (specInit { name := [0x68], runOnce := true, active := true, kind := .checkable })
      [(.upd .A 5, ob false 0 1, ob true 0 0), (.due .A, ob false 0 1, ob true 0 0)]
      = some .dueCheckRuns := by decide

/-- The model's own trace through the cold-start stash: requested while undecided, delivered once alone after the grace period. -/
example :
    (trace .pair [0x61] [0x62] { name := [0x6e], runOnce := true, active := true, kind := .notification }
      (initPair { name := [0x6e], runOnce := true, active := true, kind := .notification })
      [.boot .A 1000 false, .request .A, .ntimer .A, .upd .A 1031, .ntimer .A]).getLast?
      = some (.ntimer .A, { paused := false, pauses := 0, resumes := 1, execs := 1, stash := 0 }, ob true 0 0) := by decide

/-- The hash: sign extension of bytes ≥ 0x80 and the 64-bit wrap-around, on concrete values that the harness also
    checks against `Utility::SDBM`. -/
example : (sdbm [0x68, 0x31]).toNat = 6822345 := by decide
example : (sdbm [0xff, 0x80]).toNat = 18446744073709485889 := by decide

end Icinga.C10

/-
  C18 — helper lemmas for IcingaProofs/C18.lean.
-/
import IcingaModel.C18.Model
import IcingaModel.C18.Spec

namespace Icinga.C18

/-- decidable equality of results (for the `decide`d examples; kept local to this namespace) -/
instance instDecEqResult : DecidableEq (Except Err (List Obj))
  | .ok x, .ok y => if h : x = y then isTrue (h ▸ rfl) else isFalse (fun h' => by cases h'; exact h rfl)
  | .error x, .error y => if h : x = y then isTrue (h ▸ rfl) else isFalse (fun h' => by cases h'; exact h rfl)
  | .ok _, .error _ => isFalse (fun h => by cases h)
  | .error _, .ok _ => isFalse (fun h => by cases h)

/-! ### wildcard language -/

theorem starAux_iff (k : List Char → Bool) (s : List Char) :
    starAux k s = true ↔ ∃ pre suf, s = pre ++ suf ∧ k suf = true := by
  induction s with
  | nil =>
    simp only [starAux]
    constructor
    · intro h; exact ⟨[], [], rfl, h⟩
    · rintro ⟨pre, suf, h, hk⟩
      have : suf = [] := (List.append_eq_nil_iff.1 h.symm).2
      rw [this] at hk; exact hk
  | cons c s ih =>
    simp only [starAux, Bool.or_eq_true, ih]
    constructor
    · rintro (h | ⟨pre, suf, h, hk⟩)
      · exact ⟨[], c :: s, rfl, h⟩
      · exact ⟨c :: pre, suf, by simp [h], hk⟩
    · rintro ⟨pre, suf, h, hk⟩
      cases pre with
      | nil => left; simp at h; simpa [h] using hk
      | cons d pre =>
        right
        simp at h
        exact ⟨pre, suf, h.2, hk⟩

theorem matchToks_sound : ∀ (ts : List Tok) (s : List Char), matchToks ts s = true → Denotes ts s
  | [], s, h => by
    cases s with
    | nil => exact .nil
    | cons _ _ => simp [matchToks] at h
  | .star :: ts, s, h => by
    simp only [matchToks] at h
    obtain ⟨pre, suf, rfl, hk⟩ := (starAux_iff _ _).1 h
    exact .star pre (matchToks_sound ts suf hk)
  | .any :: ts, [], h => by simp [matchToks] at h
  | .any :: ts, d :: s, h => by
    simp only [matchToks] at h
    exact .any d (matchToks_sound ts s h)
  | .lit c :: ts, [], h => by simp [matchToks] at h
  | .lit c :: ts, d :: s, h => by
    simp only [matchToks, Bool.and_eq_true, litEq, beq_iff_eq] at h
    exact .lit h.1 (matchToks_sound ts s h.2)

theorem matchToks_complete {ts : List Tok} {s : List Char} (h : Denotes ts s) : matchToks ts s = true := by
  induction h with
  | nil => rfl
  | star pre _ ih =>
    simp only [matchToks]
    exact (starAux_iff _ _).2 ⟨pre, _, rfl, ih⟩
  | any d _ ih => simpa [matchToks] using ih
  | lit hc _ ih => simp [matchToks, litEq, hc, ih]

/-! ### permissions -/

theorem allowedB_iff (u : User) (perm : String) (o : Obj) : allowedB u perm o = true ↔ Allowed u perm o := by
  unfold allowedB Allowed
  simp only [List.any_eq_true, permAllows, Bool.and_eq_true]
  constructor
  · rintro ⟨p, hp, hm, hf⟩
    refine ⟨p, hp, hm, ?_⟩
    cases hpf : p.filter with
    | none => left; rfl
    | some f => right; exact ⟨f, rfl, by simpa [hpf] using hf⟩
  · rintro ⟨p, hp, hm, hf⟩
    refine ⟨p, hp, hm, ?_⟩
    rcases hf with hf | ⟨f, hf, hfo⟩
    · simp [hf]
    · simp [hf, hfo]

theorem someMatch_eq (u : User) (perm : String) : someMatch u perm = u.any (permMatches perm) := rfl

theorem hasPermission_of_ne {u : User} {perm : String} (hne : perm ≠ "") :
    hasPermission u perm = someMatch u perm := by
  simp [hasPermission, someMatch_eq, hne]

/-- The heart of the matter: with a matching entry, an object that passes the OR of the matching
    entries' filters (or the null filter when none of them has one) is allowed. -/
theorem permFilterFn_allowed {u : User} {perm : String} {o : Obj} (hne : perm ≠ "")
    (hm : someMatch u perm = true) (hpf : permFilterFn u perm o = true) : Allowed u perm o := by
  unfold permFilterFn at hpf
  have hne' : (perm == "") = false := by simp [hne]
  cases hfs : permissionFilters u perm with
  | nil =>
    -- no matching entry carries a filter: any matching entry grants
    rw [someMatch_eq, List.any_eq_true] at hm
    obtain ⟨p, hp, hpm⟩ := hm
    refine ⟨p, hp, hpm, Or.inl ?_⟩
    simp only [permissionFilters, hne', Bool.false_eq_true, if_false] at hfs
    cases hpf' : p.filter with
    | none => rfl
    | some f =>
      have : f ∈ (u.filter (permMatches perm)).filterMap (·.filter) :=
        List.mem_filterMap.2 ⟨p, List.mem_filter.2 ⟨hp, hpm⟩, hpf'⟩
      rw [hfs] at this
      cases this
  | cons f0 fs =>
    rw [hfs] at hpf
    simp only [List.any_eq_true] at hpf
    obtain ⟨f, hf, hfo⟩ := hpf
    rw [← hfs] at hf
    simp only [permissionFilters, hne', Bool.false_eq_true, if_false] at hf
    obtain ⟨p, hp, hpf'⟩ := List.mem_filterMap.1 hf
    obtain ⟨hpu, hpm⟩ := List.mem_filter.1 hp
    exact ⟨p, hpu, hpm, Or.inr ⟨f, hpf', hfo⟩⟩

/-! ### the by-name part -/

theorem lookup_mem {inv : Inventory} {t n : String} {o : Obj} (h : lookup inv t n = some o) : o ∈ inv :=
  List.mem_of_find?_eq_some h

theorem runNamed_ok (pf : Obj → Bool) (inv : Inventory) :
    ∀ (steps : List Step) (objs : List Obj), (runNamed pf inv steps).1 = .ok objs →
      ∀ o ∈ objs, pf o = true ∧ o ∈ inv
  | [], objs, h => by
    simp only [runNamed] at h
    cases h
    intro o ho; cases ho
  | .plural t :: rest, objs, h => by
    simp only [runNamed] at h
    exact runNamed_ok pf inv rest objs h
  | .get t n :: rest, objs, h => by
    simp only [runNamed] at h
    cases hl : lookup inv t n with
    | none => simp [hl] at h
    | some o' =>
      simp only [hl] at h
      by_cases hp : pf o' = true
      · simp only [hp, if_true] at h
        cases hr : (runNamed pf inv rest).1 with
        | error e => simp [hr, Except.map] at h
        | ok objs' =>
          simp only [hr, Except.map] at h
          cases h
          intro o ho
          rcases List.mem_cons.1 ho with rfl | ho
          · exact ⟨hp, lookup_mem hl⟩
          · exact runNamed_ok pf inv rest objs' hr o ho
      · simp [hp] at h

/-- A named request for an existing object that fails the permission filter makes the whole call fail. -/
theorem runNamed_forbidden (pf : Obj → Bool) (inv : Inventory) :
    ∀ (steps : List Step) (t n : String) (o : Obj), Step.get t n ∈ steps → lookup inv t n = some o →
      pf o = false → ∃ e, (runNamed pf inv steps).1 = .error e
  | [], _, _, _, hmem, _, _ => by cases hmem
  | .plural t' :: rest, t, n, o, hmem, hl, hp => by
    simp only [runNamed]
    rcases List.mem_cons.1 hmem with h | h
    · cases h
    · exact runNamed_forbidden pf inv rest t n o h hl hp
  | .get t' n' :: rest, t, n, o, hmem, hl, hp => by
    simp only [runNamed]
    cases hl' : lookup inv t' n' with
    | none => exact ⟨_, rfl⟩
    | some o' =>
      by_cases hp' : pf o' = true
      · simp only [hp', if_true]
        rcases List.mem_cons.1 hmem with h | h
        · cases h
          rw [hl] at hl'
          cases hl'
          rw [hp] at hp'
          cases hp'
        · obtain ⟨e, he⟩ := runNamed_forbidden pf inv rest t n o h hl hp
          exact ⟨e, by simp [he, Except.map]⟩
      · simp only [hp', Bool.false_eq_true, if_false]
        exact ⟨_, rfl⟩

theorem mem_namedSteps_of_request {types : List String} {q : Query} {t n : String}
    (h : (t, n) ∈ namedRequests types q) : Step.get t n ∈ namedSteps types q := by
  unfold namedRequests at h
  obtain ⟨st, hst, hs⟩ := List.mem_filterMap.1 h
  cases st with
  | get t' n' => simp at hs; obtain ⟨rfl, rfl⟩ := hs; exact hst
  | plural _ => simp at hs

/-! ### the filter / whole-type part -/

theorem evalFilter_ok (pf : Obj → Bool) (uf : Obj → Option Bool) :
    ∀ (l objs : List Obj), evalFilter pf uf l = .ok objs → ∀ o ∈ objs, pf o = true ∧ o ∈ l
  | [], objs, h => by
    simp only [evalFilter] at h
    cases h
    intro o ho; cases ho
  | x :: rest, objs, h => by
    simp only [evalFilter] at h
    by_cases hp : pf x = true
    · simp only [hp, if_true] at h
      cases hu : uf x with
      | none => simp [hu] at h
      | some b =>
        simp only [hu] at h
        cases hr : evalFilter pf uf rest with
        | error e => simp [hr, Except.map] at h
        | ok objs' =>
          simp only [hr, Except.map] at h
          cases h
          have ih := evalFilter_ok pf uf rest objs' hr
          intro o ho
          cases b with
          | false =>
            simp only [Bool.false_eq_true, if_false] at ho
            exact ⟨(ih o ho).1, List.mem_cons_of_mem _ (ih o ho).2⟩
          | true =>
            simp only [if_true] at ho
            rcases List.mem_cons.1 ho with rfl | ho
            · exact ⟨hp, List.mem_cons_self⟩
            · exact ⟨(ih o ho).1, List.mem_cons_of_mem _ (ih o ho).2⟩
    · simp only [hp, Bool.false_eq_true, if_false] at h
      have ih := evalFilter_ok pf uf rest objs h
      intro o ho
      exact ⟨(ih o ho).1, List.mem_cons_of_mem _ (ih o ho).2⟩

theorem phase2_ok (pf : Obj → Bool) (qd : QD) (q : Query) (inv : Inventory) (objs : List Obj)
    (h : (phase2 pf qd q inv).1 = .ok objs) : ∀ o ∈ objs, pf o = true ∧ o ∈ inv := by
  unfold phase2 at h
  cases ht : q.type with
  | none => simp [ht] at h
  | some t =>
    simp only [ht] at h
    by_cases hv : q.typeValid = true
    · by_cases hc : qd.types.contains t = true
      · simp only [hv, hc, Bool.not_true, Bool.false_eq_true, if_false] at h
        cases hf : q.filter with
        | none =>
          simp only [hf] at h
          cases h
          intro o ho
          obtain ⟨ho1, ho2⟩ := List.mem_filter.1 ho
          exact ⟨ho2, (List.mem_filter.1 ho1).1⟩
        | some uf =>
          simp only [hf] at h
          cases hfast : fastNames qd t uf with
          | some names =>
            simp only [hfast] at h
            cases h
            intro o ho
            obtain ⟨ho1, ho2⟩ := List.mem_filter.1 ho
            obtain ⟨n, _, hn⟩ := List.mem_filterMap.1 ho1
            exact ⟨ho2, lookup_mem hn⟩
          | none =>
            simp only [hfast] at h
            intro o ho
            have := evalFilter_ok pf uf.pred _ objs h o ho
            exact ⟨this.1, (List.mem_filter.1 this.2).1⟩
      · have hc' : t ∉ qd.types := by simpa using hc
        simp [hv, hc'] at h
    · simp [hv] at h

/-- Everything `filterTargets` returns passed the permission filter and is a registered object. -/
theorem filterTargets_ok (u : User) (qd : QD) (q : Query) (inv : Inventory) (objs : List Obj)
    (h : (filterTargets u qd q inv).result = .ok objs) :
    hasPermission u qd.permission = true ∧
    ∀ o ∈ objs, permFilterFn u qd.permission o = true ∧ o ∈ inv := by
  unfold filterTargets at h
  by_cases hp : hasPermission u qd.permission = true
  · refine ⟨hp, ?_⟩
    simp only [hp, Bool.not_true, Bool.false_eq_true, if_false] at h
    cases h1 : (runNamed (permFilterFn u qd.permission) inv (namedSteps qd.types q)).1 with
    | error e => simp [h1] at h
    | ok named =>
      simp only [h1] at h
      have hnamed := runNamed_ok _ inv _ named h1
      by_cases hc : (q.filter.isSome || named.isEmpty) = true
      · simp only [hc, if_true] at h
        cases h2 : (phase2 (permFilterFn u qd.permission) qd q inv).1 with
        | error e => simp [h2] at h
        | ok found =>
          simp only [h2] at h
          cases h
          have hfound := phase2_ok _ qd q inv found h2
          intro o ho
          rcases List.mem_append.1 ho with ho | ho
          · exact hnamed o ho
          · exact hfound o ho
      · simp only [hc, Bool.false_eq_true, if_false] at h
        cases h
        exact hnamed
  · simp [hp] at h

theorem filterTargets_forbidden (u : User) (qd : QD) (q : Query) (inv : Inventory) (t n : String) (o : Obj)
    (hreq : (t, n) ∈ namedRequests qd.types q) (hl : lookup inv t n = some o)
    (hpf : permFilterFn u qd.permission o = false) :
    ∃ e, (filterTargets u qd q inv).result = .error e := by
  unfold filterTargets
  by_cases hp : hasPermission u qd.permission = true
  · simp only [hp, Bool.not_true, Bool.false_eq_true, if_false]
    obtain ⟨e, he⟩ := runNamed_forbidden (permFilterFn u qd.permission) inv _ t n o
      (mem_namedSteps_of_request hreq) hl hpf
    simp only [he]
    exact ⟨e, rfl⟩
  · simp only [hp, Bool.not_false, if_true]
    exact ⟨_, rfl⟩

end Icinga.C18

/-
  C18 — helper lemmas for IcingaProofs/C18.lean.
-/
import IcingaModel.C18.Model
import IcingaModel.C18.Spec

namespace Icinga.C18

/-- decidable equality of results (for the `decide`d examples; kept local to this namespace) -/
instance instDecEqResult : DecidableEq (Except Err (List Obj))
  | .ok x, .ok y => if h : x = y then isTrue (h ▸ rfl) else isFalse (fun h' => by cases h'; exact h rfl)
  | .error x, .error y => if h : x = y then isTrue (h ▸ rfl) else isFalse (fun h' => by cases h'; exact h rfl)
  | .ok _, .error _ => isFalse (fun h => by cases h)
  | .error _, .ok _ => isFalse (fun h => by cases h)

/-! ### wildcard language -/

theorem starAux_iff (k : List Char → Bool) (s : List Char) :
    starAux k s = true ↔ ∃ pre suf, s = pre ++ suf ∧ k suf = true := by
  induction s with
  | nil =>
    simp only [starAux]
    constructor
    · intro h; exact ⟨[], [], rfl, h⟩
    · rintro ⟨pre, suf, h, hk⟩
      have : suf = [] := (List.append_eq_nil_iff.1 h.symm).2
      rw [this] at hk; exact hk
  | cons c s ih =>
    simp only [starAux, Bool.or_eq_true, ih]
    constructor
    · rintro (h | ⟨pre, suf, h, hk⟩)
      · exact ⟨[], c :: s, rfl, h⟩
      · exact ⟨c :: pre, suf, by simp [h], hk⟩
    · rintro ⟨pre, suf, h, hk⟩
      cases pre with
      | nil => left; simp at h; simpa [h] using hk
      | cons d pre =>
        right
        simp at h
        exact ⟨pre, suf, h.2, hk⟩

theorem matchToks_sound : ∀ (ts : List Tok) (s : List Char), matchToks ts s = true → Denotes ts s
  | [], s, h => by
    cases s with
    | nil => exact .nil
    | cons _ _ => simp [matchToks] at h
  | .star :: ts, s, h => by
    simp only [matchToks] at h
    obtain ⟨pre, suf, rfl, hk⟩ := (starAux_iff _ _).1 h
    exact .star pre (matchToks_sound ts suf hk)
  | .any :: ts, [], h => by simp [matchToks] at h
  | .any :: ts, d :: s, h => by
    simp only [matchToks] at h
    exact .any d (matchToks_sound ts s h)
  | .lit c :: ts, [], h => by simp [matchToks] at h
  | .lit c :: ts, d :: s, h => by
    simp only [matchToks, Bool.and_eq_true, litEq, beq_iff_eq] at h
    exact .lit h.1 (matchToks_sound ts s h.2)

theorem matchToks_complete {ts : List Tok} {s : List Char} (h : Denotes ts s) : matchToks ts s = true := by
  induction h with
  | nil => rfl
  | star pre _ ih =>
    simp only [matchToks]
    exact (starAux_iff _ _).2 ⟨pre, _, rfl, ih⟩
  | any d _ ih => simpa [matchToks] using ih
  | lit hc _ ih => simp [matchToks, litEq, hc, ih]

/-! ### permissions -/

theorem allowedB_iff (u : User) (perm : String) (o : Obj) : allowedB u perm o = true ↔ Allowed u perm o := by
  unfold allowedB Allowed
  simp only [List.any_eq_true, permAllows, Bool.and_eq_true]
  constructor
  · rintro ⟨p, hp, hm, hf⟩
    refine ⟨p, hp, hm, ?_⟩
    cases hpf : p.filter with
    | none => left; rfl
    | some f => right; exact ⟨f, rfl, by simpa [hpf] using hf⟩
  · rintro ⟨p, hp, hm, hf⟩
    refine ⟨p, hp, hm, ?_⟩
    rcases hf with hf | ⟨f, hf, hfo⟩
    · simp [hf]
    · simp [hf, hfo]

theorem someMatch_eq (u : User) (perm : String) : someMatch u perm = u.any (permMatches perm) := rfl

theorem hasPermission_of_ne {u : User} {perm : String} (hne : perm ≠ "") :
    hasPermission u perm = someMatch u perm := by
  simp [hasPermission, someMatch_eq, hne]

theorem mem_permissionFilters {u : User} {perm : String} {f : PFilter} (h : f ∈ permissionFilters u perm) :
    ∃ p ∈ u, permMatches perm p = true ∧ p.filter = some f := by
  unfold permissionFilters at h
  split at h
  · cases h
  · obtain ⟨p, hp, hpf⟩ := List.mem_filterMap.1 h
    obtain ⟨hpu, hpm⟩ := List.mem_filter.1 hp
    exact ⟨p, hpu, hpm, hpf⟩

theorem orAny_true : ∀ (fs : List PFilter) (b : Option Obj) (o : Obj), orAny fs b o = some true →
    ∃ f ∈ fs, f b o = some true
  | [], _, _, h => by simp [orAny] at h
  | f :: fs, b, o, h => by
    simp only [orAny] at h
    cases hf : f b o with
    | none => simp [hf] at h
    | some v =>
      cases v with
      | true => exact ⟨f, List.mem_cons_self, hf⟩
      | false =>
        simp only [hf] at h
        obtain ⟨g, hg, hgo⟩ := orAny_true fs b o h
        exact ⟨g, List.mem_cons_of_mem _ hg, hgo⟩

/-- The heart of the matter: with a matching entry, an object on which — evaluated alone — the OR of the
    matching entries' filters is true (or the filter is null because none of them has one) is allowed. -/
theorem pfIso_allowed {u : User} {perm : String} {o : Obj} (hne : perm ≠ "")
    (hm : someMatch u perm = true) (hpf : pfIso (permissionFilters u perm) o = some true) :
    Allowed u perm o := by
  unfold pfIso pfVal at hpf
  have hne' : (perm == "") = false := by simp [hne]
  by_cases hfs : (permissionFilters u perm).isEmpty = true
  · -- no matching entry carries a filter: any matching entry grants
    rw [someMatch_eq, List.any_eq_true] at hm
    obtain ⟨p, hp, hpm⟩ := hm
    refine ⟨p, hp, hpm, Or.inl ?_⟩
    have hnil : permissionFilters u perm = [] := List.isEmpty_iff.1 hfs
    simp only [permissionFilters, hne', Bool.false_eq_true, if_false] at hnil
    cases hpf' : p.filter with
    | none => rfl
    | some f =>
      have : f ∈ (u.filter (permMatches perm)).filterMap (·.filter) :=
        List.mem_filterMap.2 ⟨p, List.mem_filter.2 ⟨hp, hpm⟩, hpf'⟩
      rw [hnil] at this
      cases this
  · simp only [hfs, Bool.false_eq_true, if_false] at hpf
    obtain ⟨f, hf, hfo⟩ := orAny_true _ _ _ hpf
    obtain ⟨p, hpu, hpm, hpf'⟩ := mem_permissionFilters hf
    exact ⟨p, hpu, hpm, Or.inr ⟨f, hpf', hfo⟩⟩

theorem pfIso_ne_of_not_allowed {u : User} {perm : String} {o : Obj} (hperm : perm ≠ "")
    (hm : someMatch u perm = true) (hforbidden : ¬ Allowed u perm o) :
    pfIso (permissionFilters u perm) o ≠ some true :=
  fun h => hforbidden (pfIso_allowed hperm hm h)

/-! ### the permission frame -/

/-- What the frame can hold: nothing, or a Service that the request was able to visit. -/
def StInv (types : List String) (st : Option Obj) : Prop :=
  ∀ s, st = some s → s.type = "Service" ∧ "Service" ∈ types

theorem StInv_none (types : List String) : StInv types none := by
  intro s h; cases h

theorem bindSvc_service {st : Option Obj} {o : Obj} (h : o.type = "Service") : bindSvc st o = some o := by
  simp [bindSvc, h]

theorem bindSvc_other {st : Option Obj} {o : Obj} (h : o.type ≠ "Service") : bindSvc st o = st := by
  simp [bindSvc, h]

theorem StInv_frameFor {types : List String} {shared : Bool} {st : Option Obj} {o : Obj}
    (hst : StInv types st) (ho : o.type ∈ types) : StInv types (frameFor shared st o) := by
  unfold frameFor
  by_cases hs : o.type = "Service"
  · rw [bindSvc_service hs]
    intro s h
    cases h
    exact ⟨hs, hs ▸ ho⟩
  · rw [bindSvc_other hs]
    cases shared with
    | true => simpa using hst
    | false => simpa using StInv_none types

theorem orAny_indep : ∀ (fs : List PFilter) (st : Option Obj) (o : Obj),
    (∀ f ∈ fs, ∀ st o, f (bindSvc st o) o = f (bindSvc none o) o) →
    orAny fs (bindSvc st o) o = orAny fs (bindSvc none o) o
  | [], _, _, _ => rfl
  | f :: fs, st, o, h => by
    simp only [orAny]
    rw [h f List.mem_cons_self st o, orAny_indep fs st o (fun g hg => h g (List.mem_cons_of_mem _ hg))]

/-- Under `IsoVisit` the permission filter of a visited object has the value it has on the object alone. -/
theorem pfVal_iso {u : User} {perm : String} {shared : Bool} {types : List String} {st : Option Obj} {o : Obj}
    (hiso : IsoVisit shared types u) (hst : StInv types st) (ho : o.type ∈ types) :
    pfVal (permissionFilters u perm) (frameFor shared st o) o = pfIso (permissionFilters u perm) o := by
  unfold pfIso
  rcases hiso with h | h | h | h
  · simp [frameFor, h]
  · unfold frameFor pfVal
    split
    · rfl
    · apply orAny_indep
      intro f hf
      obtain ⟨p, hpu, _, hpf⟩ := mem_permissionFilters hf
      exact h p hpu f hpf
  · have hnone : st = none := by
      cases hs : st with
      | none => rfl
      | some s => exact absurd rfl (h "Service" (hst s hs).2)
    subst hnone
    cases shared <;> simp [frameFor]
  · have hs : o.type = "Service" := h _ ho
    simp [frameFor, bindSvc_service hs]

/-! ### the by-name part -/

theorem lookup_mem {inv : Inventory} {t n : String} {o : Obj} (h : lookup inv t n = some o) : o ∈ inv :=
  List.mem_of_find?_eq_some h

theorem lookup_type {inv : Inventory} {t n : String} {o : Obj} (h : lookup inv t n = some o) : o.type = t := by
  have := List.find?_some h
  simp only [Bool.and_eq_true, beq_iff_eq] at this
  exact this.1

theorem mem_namedSteps_type {types : List String} {q : Query} {t n : String}
    (h : Step.get t n ∈ namedSteps types q) : t ∈ types := by
  unfold namedSteps at h
  obtain ⟨t', ht', hmem⟩ := List.mem_flatMap.1 h
  have : t = t' := by
    simp only [List.mem_append, List.mem_cons, List.not_mem_nil, or_false] at hmem
    rcases hmem with (hm | hm) | hm
    · cases hq : q.single.lookup t' with
      | none => simp [hq] at hm
      | some n' => simp [hq] at hm; exact hm.1
    · cases hm
    · cases hq : q.plural.lookup t' with
      | none => simp [hq] at hm
      | some ns => simp [hq] at hm; obtain ⟨_, _, rfl⟩ := hm; rfl
  exact this ▸ ht'

section
variable {u : User} {perm : String} {shared : Bool} {types : List String} (inv : Inventory)

theorem runNamed_ok (hiso : IsoVisit shared types u) :
    ∀ (steps : List Step) (st : Option Obj) (objs : List Obj),
      (∀ t n, Step.get t n ∈ steps → t ∈ types) → StInv types st →
      (runNamed shared (permissionFilters u perm) inv steps st).result = .ok objs →
      (∀ o ∈ objs, pfIso (permissionFilters u perm) o = some true ∧ o ∈ inv) ∧
      StInv types (runNamed shared (permissionFilters u perm) inv steps st).frame
  | [], st, objs, _, hst, h => by
    simp only [runNamed] at h ⊢
    cases h
    exact ⟨fun o ho => (by cases ho), hst⟩
  | .plural t :: rest, st, objs, hty, hst, h => by
    simp only [runNamed] at h ⊢
    exact runNamed_ok hiso rest st objs (fun t n hm => hty t n (List.mem_cons_of_mem _ hm)) hst h
  | .get t n :: rest, st, objs, hty, hst, h => by
    simp only [runNamed] at h ⊢
    cases hl : lookup inv t n with
    | none => simp [hl] at h
    | some o' =>
      simp only [hl] at h ⊢
      have ho' : o'.type ∈ types := lookup_type hl ▸ hty t n List.mem_cons_self
      have hv := pfVal_iso (perm := perm) hiso hst ho'
      have hst' := StInv_frameFor (shared := shared) hst ho'
      cases hp : pfVal (permissionFilters u perm) (frameFor shared st o') o' with
      | none => simp [hp] at h
      | some v =>
        cases v with
        | false => simp [hp] at h
        | true =>
          simp only [hp] at h ⊢
          cases hr : (runNamed shared (permissionFilters u perm) inv rest (frameFor shared st o')).result with
          | error e => simp [hr, Except.map] at h
          | ok objs' =>
            simp only [hr, Except.map] at h
            cases h
            have ih := runNamed_ok hiso rest _ objs' (fun t n hm => hty t n (List.mem_cons_of_mem _ hm)) hst' hr
            refine ⟨?_, ih.2⟩
            intro o ho
            rcases List.mem_cons.1 ho with rfl | ho
            · exact ⟨hv ▸ hp, lookup_mem hl⟩
            · exact ih.1 o ho

/-- A named request for an existing object whose filter — evaluated alone — is not true makes the whole
    call fail. -/
theorem runNamed_forbidden (hiso : IsoVisit shared types u) :
    ∀ (steps : List Step) (st : Option Obj) (t n : String) (o : Obj),
      (∀ t n, Step.get t n ∈ steps → t ∈ types) → StInv types st →
      Step.get t n ∈ steps → lookup inv t n = some o →
      pfIso (permissionFilters u perm) o ≠ some true →
      ∃ e, (runNamed shared (permissionFilters u perm) inv steps st).result = .error e
  | [], _, _, _, _, _, _, hmem, _, _ => by cases hmem
  | .plural t' :: rest, st, t, n, o, hty, hst, hmem, hl, hp => by
    simp only [runNamed]
    rcases List.mem_cons.1 hmem with h | h
    · cases h
    · exact runNamed_forbidden hiso rest st t n o (fun t n hm => hty t n (List.mem_cons_of_mem _ hm)) hst h hl hp
  | .get t' n' :: rest, st, t, n, o, hty, hst, hmem, hl, hp => by
    simp only [runNamed]
    cases hl' : lookup inv t' n' with
    | none => exact ⟨_, rfl⟩
    | some o' =>
      simp only
      have ho' : o'.type ∈ types := lookup_type hl' ▸ hty t' n' List.mem_cons_self
      have hv := pfVal_iso (perm := perm) hiso hst ho'
      have hst' := StInv_frameFor (shared := shared) hst ho'
      cases hp' : pfVal (permissionFilters u perm) (frameFor shared st o') o' with
      | none => exact ⟨_, rfl⟩
      | some v =>
        cases v with
        | false => exact ⟨_, rfl⟩
        | true =>
          simp only
          rcases List.mem_cons.1 hmem with h | h
          · cases h
            rw [hl] at hl'
            cases hl'
            exact absurd (hv ▸ hp') hp
          · obtain ⟨e, he⟩ := runNamed_forbidden hiso rest _ t n o
              (fun t n hm => hty t n (List.mem_cons_of_mem _ hm)) hst' h hl hp
            exact ⟨e, by simp [he, Except.map]⟩

/-! ### the filter / whole-type part -/

theorem visitAll_ok (hiso : IsoVisit shared types u) (uf : Obj → Option Bool) :
    ∀ (l : List Obj) (st : Option Obj) (objs : List Obj),
      (∀ o ∈ l, o.type ∈ types) → StInv types st →
      visitAll shared (permissionFilters u perm) uf l st = .ok objs →
      ∀ o ∈ objs, pfIso (permissionFilters u perm) o = some true ∧ o ∈ l
  | [], _, objs, _, _, h => by
    simp only [visitAll] at h
    cases h
    intro o ho; cases ho
  | x :: rest, st, objs, hty, hst, h => by
    simp only [visitAll] at h
    have hx : x.type ∈ types := hty x List.mem_cons_self
    have hv := pfVal_iso (perm := perm) hiso hst hx
    have hst' := StInv_frameFor (shared := shared) hst hx
    have hty' : ∀ o ∈ rest, o.type ∈ types := fun o ho => hty o (List.mem_cons_of_mem _ ho)
    cases hp : pfVal (permissionFilters u perm) (frameFor shared st x) x with
    | none => simp [hp] at h
    | some v =>
      cases v with
      | false =>
        simp only [hp] at h
        have ih := visitAll_ok hiso uf rest _ objs hty' hst' h
        intro o ho
        exact ⟨(ih o ho).1, List.mem_cons_of_mem _ (ih o ho).2⟩
      | true =>
        simp only [hp] at h
        cases hu : uf x with
        | none => simp [hu] at h
        | some b =>
          simp only [hu] at h
          cases hr : visitAll shared (permissionFilters u perm) uf rest (frameFor shared st x) with
          | error e => simp [hr, Except.map] at h
          | ok objs' =>
            simp only [hr, Except.map] at h
            cases h
            have ih := visitAll_ok hiso uf rest _ objs' hty' hst' hr
            intro o ho
            cases b with
            | false =>
              simp only [Bool.false_eq_true, if_false] at ho
              exact ⟨(ih o ho).1, List.mem_cons_of_mem _ (ih o ho).2⟩
            | true =>
              simp only [if_true] at ho
              rcases List.mem_cons.1 ho with rfl | ho
              · exact ⟨hv ▸ hp, List.mem_cons_self⟩
              · exact ⟨(ih o ho).1, List.mem_cons_of_mem _ (ih o ho).2⟩

/-- Under `IsoVisit` the frame in which an enumeration starts is irrelevant. -/
theorem visitAll_frame_irrel (hiso : IsoVisit shared types u) (uf : Obj → Option Bool) :
    ∀ (l : List Obj) (st st' : Option Obj),
      (∀ o ∈ l, o.type ∈ types) → StInv types st → StInv types st' →
      visitAll shared (permissionFilters u perm) uf l st = visitAll shared (permissionFilters u perm) uf l st'
  | [], _, _, _, _, _ => rfl
  | x :: rest, st, st', hty, hst, hst' => by
    have hx : x.type ∈ types := hty x List.mem_cons_self
    have hty' : ∀ o ∈ rest, o.type ∈ types := fun o ho => hty o (List.mem_cons_of_mem _ ho)
    simp only [visitAll]
    rw [pfVal_iso (perm := perm) hiso hst hx, pfVal_iso (perm := perm) hiso hst' hx,
      visitAll_frame_irrel hiso uf rest _ _ hty' (StInv_frameFor (shared := shared) hst hx)
        (StInv_frameFor (shared := shared) hst' hx)]

end

theorem ofType_type {inv : Inventory} {t : String} {o : Obj} (h : o ∈ ofType inv t) : o.type = t := by
  have := (List.mem_filter.1 h).2
  simpa using this

theorem phase2_ok {u : User} {perm : String} {shared : Bool} (qd : QD) (q : Query) (inv : Inventory) (st : Option Obj)
    (objs : List Obj) (hiso : IsoVisit shared qd.types u) (hst : StInv qd.types st)
    (h : (phase2 shared (permissionFilters u perm) qd q inv st).1 = .ok objs) :
    ∀ o ∈ objs, pfIso (permissionFilters u perm) o = some true ∧ o ∈ inv := by
  unfold phase2 at h
  cases ht : q.type with
  | none => simp [ht] at h
  | some t =>
    simp only [ht] at h
    by_cases hv : q.typeValid = true
    · by_cases hc : qd.types.contains t = true
      · have htm : t ∈ qd.types := by simpa using hc
        simp only [hv, hc, Bool.not_true, Bool.false_eq_true, if_false] at h
        have hof : ∀ o ∈ ofType inv t, o.type ∈ qd.types := fun o ho => ofType_type ho ▸ htm
        cases hf : q.filter with
        | none =>
          simp only [hf] at h
          intro o ho
          have := visitAll_ok (perm := perm) hiso _ _ st objs hof hst h o ho
          exact ⟨this.1, (List.mem_filter.1 this.2).1⟩
        | some uf =>
          simp only [hf] at h
          cases hfast : fastNames qd t uf with
          | some names =>
            simp only [hfast] at h
            have hl : ∀ o ∈ names.filterMap (lookup inv t), o.type ∈ qd.types := by
              intro o ho
              obtain ⟨n, _, hn⟩ := List.mem_filterMap.1 ho
              exact lookup_type hn ▸ htm
            intro o ho
            have := visitAll_ok (perm := perm) hiso _ _ st objs hl hst h o ho
            obtain ⟨n, _, hn⟩ := List.mem_filterMap.1 this.2
            exact ⟨this.1, lookup_mem hn⟩
          | none =>
            simp only [hfast] at h
            intro o ho
            have := visitAll_ok (perm := perm) hiso _ _ st objs hof hst h o ho
            exact ⟨this.1, (List.mem_filter.1 this.2).1⟩
      · have hc' : t ∉ qd.types := by simpa using hc
        simp [hv, hc'] at h
    · simp [hv] at h

theorem phase2_frame_irrel {u : User} {perm : String} {shared : Bool} (qd : QD) (q : Query) (inv : Inventory) (st st' : Option Obj)
    (hiso : IsoVisit shared qd.types u) (hst : StInv qd.types st) (hst' : StInv qd.types st') :
    phase2 shared (permissionFilters u perm) qd q inv st = phase2 shared (permissionFilters u perm) qd q inv st' := by
  unfold phase2
  cases ht : q.type with
  | none => rfl
  | some t =>
    simp only
    by_cases hv : q.typeValid = true
    · by_cases hc : qd.types.contains t = true
      · have htm : t ∈ qd.types := by simpa using hc
        have hof : ∀ o ∈ ofType inv t, o.type ∈ qd.types := fun o ho => ofType_type ho ▸ htm
        simp only [hv, hc, Bool.not_true, Bool.false_eq_true, if_false]
        cases hf : q.filter with
        | none =>
          simp only
          rw [visitAll_frame_irrel (perm := perm) hiso _ _ st st' hof hst hst']
        | some uf =>
          simp only
          cases hfast : fastNames qd t uf with
          | some names =>
            have hl : ∀ o ∈ names.filterMap (lookup inv t), o.type ∈ qd.types := by
              intro o ho
              obtain ⟨n, _, hn⟩ := List.mem_filterMap.1 ho
              exact lookup_type hn ▸ htm
            simp only
            rw [visitAll_frame_irrel (perm := perm) hiso _ _ st st' hl hst hst']
          | none =>
            simp only
            rw [visitAll_frame_irrel (perm := perm) hiso _ _ st st' hof hst hst']
      · have hc' : t ∉ qd.types := by simpa using hc
        simp [hv, hc']
    · simp [hv]

/-- Under `IsoVisit`, everything `filterTargets` returns passed the permission filter evaluated on the object
    alone, and is a registered object. -/
theorem filterTargets_ok (shared : Bool) (u : User) (qd : QD) (q : Query) (inv : Inventory) (objs : List Obj)
    (hiso : IsoVisit shared qd.types u)
    (h : (filterTargetsWith shared u qd q inv).result = .ok objs) :
    hasPermission u qd.permission = true ∧
    ∀ o ∈ objs, pfIso (permissionFilters u qd.permission) o = some true ∧ o ∈ inv := by
  unfold filterTargetsWith at h
  by_cases hp : hasPermission u qd.permission = true
  · refine ⟨hp, ?_⟩
    simp only [hp, Bool.not_true, Bool.false_eq_true, if_false] at h
    cases h1 : (runNamed shared (permissionFilters u qd.permission) inv (namedSteps qd.types q) none).result with
    | error e => simp [h1] at h
    | ok named =>
      simp only [h1] at h
      have hnamed := runNamed_ok (perm := qd.permission) inv hiso _ none named
        (fun t n hm => mem_namedSteps_type hm) (StInv_none _) h1
      by_cases hc : (q.filter.isSome || named.isEmpty) = true
      · simp only [hc, if_true] at h
        cases h2 : (phase2 shared (permissionFilters u qd.permission) qd q inv
            (runNamed shared (permissionFilters u qd.permission) inv (namedSteps qd.types q) none).frame).1 with
        | error e => simp [h2] at h
        | ok found =>
          simp only [h2] at h
          cases h
          have hfound := phase2_ok qd q inv _ found hiso hnamed.2 h2
          intro o ho
          rcases List.mem_append.1 ho with ho | ho
          · exact hnamed.1 o ho
          · exact hfound o ho
      · simp only [hc, Bool.false_eq_true, if_false] at h
        cases h
        exact hnamed.1
  · simp [hp] at h

theorem mem_namedSteps_of_request {types : List String} {q : Query} {t n : String}
    (h : (t, n) ∈ namedRequests types q) : Step.get t n ∈ namedSteps types q := by
  unfold namedRequests at h
  obtain ⟨st, hst, hs⟩ := List.mem_filterMap.1 h
  cases st with
  | get t' n' => simp at hs; obtain ⟨rfl, rfl⟩ := hs; exact hst
  | plural _ => simp at hs

theorem filterTargets_forbidden (shared : Bool) (u : User) (qd : QD) (q : Query) (inv : Inventory) (t n : String) (o : Obj)
    (hiso : IsoVisit shared qd.types u)
    (hreq : (t, n) ∈ namedRequests qd.types q) (hl : lookup inv t n = some o)
    (hpf : pfIso (permissionFilters u qd.permission) o ≠ some true) :
    ∃ e, (filterTargetsWith shared u qd q inv).result = .error e := by
  unfold filterTargetsWith
  by_cases hp : hasPermission u qd.permission = true
  · simp only [hp, Bool.not_true, Bool.false_eq_true, if_false]
    obtain ⟨e, he⟩ := runNamed_forbidden (perm := qd.permission) inv hiso _ none t n o
      (fun t n hm => mem_namedSteps_type hm) (StInv_none _) (mem_namedSteps_of_request hreq) hl hpf
    simp only [he]
    exact ⟨e, rfl⟩
  · simp only [hp, Bool.not_false, if_true]
    exact ⟨_, rfl⟩

/-! ### order of visit -/

def stepOk (fs : List PFilter) (inv : Inventory) : Step → Bool
  | .plural _ => true
  | .get t n => match lookup inv t n with | some o => pfIso fs o == some true | none => false

def stepObj (inv : Inventory) : Step → Option Obj
  | .plural _ => none
  | .get t n => lookup inv t n

section
variable {u : User} {perm : String} {shared : Bool} {types : List String} (inv : Inventory)

theorem runNamed_all_ok (hiso : IsoVisit shared types u) :
    ∀ (steps : List Step) (st : Option Obj),
      (∀ t n, Step.get t n ∈ steps → t ∈ types) → StInv types st →
      (∀ s ∈ steps, stepOk (permissionFilters u perm) inv s = true) →
      (runNamed shared (permissionFilters u perm) inv steps st).result = .ok (steps.filterMap (stepObj inv)) ∧
      StInv types (runNamed shared (permissionFilters u perm) inv steps st).frame
  | [], st, _, hst, _ => ⟨rfl, hst⟩
  | .plural t :: rest, st, hty, hst, h => by
    simp only [runNamed, List.filterMap_cons, stepObj]
    exact runNamed_all_ok hiso rest st (fun t n hm => hty t n (List.mem_cons_of_mem _ hm)) hst
      (fun s hs => h s (List.mem_cons_of_mem _ hs))
  | .get t n :: rest, st, hty, hst, h => by
    have h0 := h (.get t n) List.mem_cons_self
    simp only [stepOk] at h0
    cases hl : lookup inv t n with
    | none => simp [hl] at h0
    | some o =>
      simp only [hl, beq_iff_eq] at h0
      have ho : o.type ∈ types := lookup_type hl ▸ hty t n List.mem_cons_self
      have hv := pfVal_iso (perm := perm) hiso hst ho
      have ih := runNamed_all_ok hiso rest (frameFor shared st o)
        (fun t n hm => hty t n (List.mem_cons_of_mem _ hm)) (StInv_frameFor (shared := shared) hst ho)
        (fun s hs => h s (List.mem_cons_of_mem _ hs))
      simp only [runNamed, hl, hv, h0, List.filterMap_cons, stepObj]
      exact ⟨by simp [ih.1, Except.map], ih.2⟩

theorem runNamed_some_bad (hiso : IsoVisit shared types u) :
    ∀ (steps : List Step) (st : Option Obj),
      (∀ t n, Step.get t n ∈ steps → t ∈ types) → StInv types st →
      (∃ s ∈ steps, stepOk (permissionFilters u perm) inv s = false) →
      ∃ e, (runNamed shared (permissionFilters u perm) inv steps st).result = .error e
  | [], _, _, _, ⟨_, hs, _⟩ => by cases hs
  | .plural t :: rest, st, hty, hst, ⟨s, hs, hb⟩ => by
    simp only [runNamed]
    rcases List.mem_cons.1 hs with rfl | hs
    · simp [stepOk] at hb
    · exact runNamed_some_bad hiso rest st (fun t n hm => hty t n (List.mem_cons_of_mem _ hm)) hst ⟨s, hs, hb⟩
  | .get t n :: rest, st, hty, hst, ⟨s, hs, hb⟩ => by
    simp only [runNamed]
    cases hl : lookup inv t n with
    | none => exact ⟨_, rfl⟩
    | some o =>
      simp only
      have ho : o.type ∈ types := lookup_type hl ▸ hty t n List.mem_cons_self
      have hv := pfVal_iso (perm := perm) hiso hst ho
      cases hp : pfVal (permissionFilters u perm) (frameFor shared st o) o with
      | none => exact ⟨_, rfl⟩
      | some v =>
        cases v with
        | false => exact ⟨_, rfl⟩
        | true =>
          simp only
          rcases List.mem_cons.1 hs with rfl | hs
          · simp [stepOk, hl, ← hv, hp] at hb
          · obtain ⟨e, he⟩ := runNamed_some_bad hiso rest (frameFor shared st o)
              (fun t n hm => hty t n (List.mem_cons_of_mem _ hm)) (StInv_frameFor (shared := shared) hst ho) ⟨s, hs, hb⟩
            exact ⟨e, by simp [he, Except.map]⟩

end

def finish (shared : Bool) (fs : List PFilter) (qd : QD) (q : Query) (inv : Inventory) (r : Named) : Except Err (List Obj) :=
  match r.result with
  | .error e => .error e
  | .ok named =>
    if q.filter.isSome || named.isEmpty then
      match (phase2 shared fs qd q inv r.frame).1 with
      | .error e => .error e
      | .ok found => .ok (named ++ found)
    else .ok named

theorem filterTargets_result (shared : Bool) (u : User) (qd : QD) (q : Query) (inv : Inventory) :
    (filterTargetsWith shared u qd q inv).result =
      if hasPermission u qd.permission then
        finish shared (permissionFilters u qd.permission) qd q inv
          (runNamed shared (permissionFilters u qd.permission) inv (namedSteps qd.types q) none)
      else .error .permission := by
  unfold filterTargetsWith finish
  cases hasPermission u qd.permission with
  | false => simp
  | true =>
    simp only [Bool.not_true, Bool.false_eq_true, if_false, if_true]
    cases (runNamed shared (permissionFilters u qd.permission) inv (namedSteps qd.types q) none).result with
    | error e => rfl
    | ok named =>
      simp only
      split
      · cases (phase2 shared (permissionFilters u qd.permission) qd q inv _).1 <;> rfl
      · rfl

theorem phase2_congr (shared : Bool) (fs : List PFilter) (qd : QD) (q1 q2 : Query) (inv : Inventory) (st : Option Obj)
    (ht : q1.type = q2.type) (hv : q1.typeValid = q2.typeValid) (hf : q1.filter = q2.filter) :
    phase2 shared fs qd q1 inv st = phase2 shared fs qd q2 inv st := by
  unfold phase2
  rw [ht, hv, hf]

theorem finish_same {u : User} {perm : String} {shared : Bool} (qd : QD) (q1 q2 : Query) (inv : Inventory) (r1 r2 : Named)
    (hiso : IsoVisit shared qd.types u)
    (ht : q1.type = q2.type) (hv : q1.typeValid = q2.typeValid) (hf : q1.filter = q2.filter)
    (l1 l2 : List Obj) (h1 : r1.result = .ok l1) (h2 : r2.result = .ok l2) (hp : l1.Perm l2)
    (hs1 : StInv qd.types r1.frame) (hs2 : StInv qd.types r2.frame) :
    sameOutcome (finish shared (permissionFilters u perm) qd q1 inv r1) (finish shared (permissionFilters u perm) qd q2 inv r2) = true := by
  have he : l1.isEmpty = l2.isEmpty := by
    cases l1 <;> cases l2 <;> simp_all
  have hph : phase2 shared (permissionFilters u perm) qd q1 inv r1.frame = phase2 shared (permissionFilters u perm) qd q2 inv r2.frame := by
    rw [phase2_congr shared _ qd q1 q2 inv _ ht hv hf]
    exact phase2_frame_irrel qd q2 inv _ _ hiso hs1 hs2
  simp only [finish, h1, h2, hph, hf, he]
  split
  · cases (phase2 shared (permissionFilters u perm) qd q2 inv r2.frame).1 with
    | error e => rfl
    | ok found => simp only [sameOutcome, List.isPerm_iff]; exact hp.append_right found
  · simp only [sameOutcome, List.isPerm_iff]; exact hp

end Icinga.C18

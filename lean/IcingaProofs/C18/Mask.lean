/-
  C18 — helper lemmas for `raw_mask_match_spec`: `tokenize` (the escapes of mmatch.c) against the declarative language of
  raw masks `DenotesMask`.
-/
import IcingaProofs.C18.Lemmas

namespace Icinga.C18

/-- only `*` itself lower-cases to `*` (`tolower` changes nothing but A–Z) -/
theorem toLower_eq_star {d : Char} (h : d.toLower = '*') : d = '*' := by
  unfold Char.toLower at h
  split at h
  · rename_i hr
    exfalso
    have hv := congrArg Char.val h
    simp only at hv
    have h1 : d.val.toNat ≥ 65 := hr.1
    have h2 : d.val.toNat ≤ 90 := hr.2
    have h3 : (d.val + ('a'.val - 'A'.val)).toNat = 42 := by rw [hv]; rfl
    have h4 : ('a'.val - 'A'.val) = 32 := by decide
    rw [h4, UInt32.toNat_add] at h3
    have : (32 : UInt32).toNat = 32 := rfl
    rw [this] at h3
    omega
  · exact h

theorem toLower_eq_qmark {d : Char} (h : d.toLower = '?') : d = '?' := by
  unfold Char.toLower at h
  split at h
  · rename_i hr
    exfalso
    have hv := congrArg Char.val h
    simp only at hv
    have h1 : d.val.toNat ≥ 65 := hr.1
    have h2 : d.val.toNat ≤ 90 := hr.2
    have h3 : (d.val + ('a'.val - 'A'.val)).toNat = 63 := by rw [hv]; rfl
    have h4 : ('a'.val - 'A'.val) = 32 := by decide
    rw [h4, UInt32.toNat_add] at h3
    have : (32 : UInt32).toNat = 32 := rfl
    rw [this] at h3
    omega
  · exact h

theorem tokenize_ordinary {c : Char} {m : List Char} (h : Ordinary c m) : tokenize (c :: m) = .lit c :: tokenize m := by
  obtain ⟨h1, h2, h3⟩ := h
  unfold tokenize
  split
  · rename_i heq; cases heq
  · rename_i heq
    simp only [List.cons.injEq] at heq
    exact absurd ⟨heq.1, _, _, heq.2, Or.inl rfl⟩ h3
  · rename_i heq
    simp only [List.cons.injEq] at heq
    exact absurd ⟨heq.1, _, _, heq.2, Or.inr rfl⟩ h3
  · rename_i heq
    simp only [List.cons.injEq] at heq
    exact absurd heq.1 h1
  · rename_i heq
    simp only [List.cons.injEq] at heq
    exact absurd heq.1 h2
  · rename_i heq
    simp only [List.cons.injEq] at heq
    rw [heq.1, heq.2]
    conv => lhs; unfold tokenize

theorem denotes_tokenize_of_mask {m s : List Char} (h : DenotesMask m s) : Denotes (tokenize m) s := by
  induction h with
  | nil => exact .nil
  | escStar _ ih => rw [tokenize]; exact .lit rfl ih
  | escAny _ ih => rw [tokenize]; exact .lit rfl ih
  | star pre _ ih => rw [tokenize]; exact .star pre ih
  | any d _ ih => rw [tokenize]; exact .any d ih
  | lit ho hd _ ih => rw [tokenize_ordinary ho]; exact .lit hd ih

theorem mask_of_denotes_tokenize : ∀ (m s : List Char), Denotes (tokenize m) s → DenotesMask m s := by
  intro m
  induction m using tokenize.induct with
  | case1 => intro s h; rw [tokenize] at h; cases h; exact .nil
  | case2 rest ih =>
    intro s h; rw [tokenize] at h
    cases h with
    | lit hd ht => have hd' := toLower_eq_star hd; subst hd'; exact .escStar (ih _ ht)
  | case3 rest ih =>
    intro s h; rw [tokenize] at h
    cases h with
    | lit hd ht => have hd' := toLower_eq_qmark hd; subst hd'; exact .escAny (ih _ ht)
  | case4 rest ih => intro s h; rw [tokenize] at h; cases h with | star pre ht => exact .star pre (ih _ ht)
  | case5 rest ih => intro s h; rw [tokenize] at h; cases h with | any d ht => exact .any d (ih _ ht)
  | case6 c rest h1 h2 h3 h4 ih =>
    intro s h
    have ho : Ordinary c rest := by
      refine ⟨fun e => h3 e, fun e => h4 e, ?_⟩
      rintro ⟨hc, x, r, hm, hx | hx⟩
      · exact h1 r hc (hx ▸ hm)
      · exact h2 r hc (hx ▸ hm)
    rw [tokenize_ordinary ho] at h
    cases h with | lit hd ht => exact .lit ho hd (ih _ ht)

end Icinga.C18

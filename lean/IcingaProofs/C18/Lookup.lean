/-
  C18 — helper lemmas for the by-name lookup of execute-command (`lookupByPermission`): the shape of the result of a
  query that consists of one single name.
-/
import IcingaProofs.C18.Lemmas

namespace Icinga.C18

theorem lookup_name {inv : Inventory} {t n : String} {o : Obj} (h : lookup inv t n = some o) : o.name = n := by
  have := List.find?_some h
  simp only [Bool.and_eq_true, beq_iff_eq] at this
  exact this.2

/-- A successful single-name query returns exactly the registered object of that type and name. -/
theorem singleName_result (u : User) (verb type name : String) (inv : Inventory) (objs : List Obj)
    (h : (filterTargets u (handlerQD verb type) (lookupQuery type name) inv).result = .ok objs) :
    ∃ o, objs = [o] ∧ lookup inv type name = some o := by
  unfold filterTargets at h
  rw [filterTargets_result] at h
  have hsteps : namedSteps (handlerQD verb type).types (lookupQuery type name) = [Step.get type name, Step.plural type] := by
    simp [namedSteps, handlerQD, lookupQuery]
  rw [hsteps] at h
  cases hp : hasPermission u (handlerQD verb type).permission with
  | false => simp [hp] at h
  | true =>
    simp only [hp, if_true] at h
    cases hl : lookup inv type name with
    | none => simp [finish, runNamed, hl] at h
    | some o =>
      cases hv : pfVal (permissionFilters u (handlerQD verb type).permission) (frameFor false none o) o with
      | none => simp [finish, runNamed, hl, hv] at h
      | some b =>
        cases b with
        | false => simp [finish, runNamed, hl, hv] at h
        | true =>
          simp [finish, runNamed, hl, hv, lookupQuery, Except.map] at h
          exact ⟨o, h.symm, rfl⟩

end Icinga.C18

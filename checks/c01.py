"""C01 — soft/hard state machine.  See DESIGN.md §2 C01."""
import glob
import json
import os
import subprocess

from vlib import core, runner
from .base import Check


class C01(Check):
    prop = "C01"
    required_theorems = ["streak_characterisation", "event_spec", "model_trace_meets_spec",
                         "pending_invariants", "stale_result_ignored", "nondecreasing_never_stale",
                         "host_projection", "host_projection_trace", "soft_implies_last_hard_ok", "dropped_only_if_older",
                         "dropped_changes_nothing", "hard_state_bookkeeping", "run_eq_runCore", "streak_characterisation_run",
                         "concurrent_pair_meets_spec", "concurrent_pair_step_meets_spec", "concurrent_nonok_order_irrelevant", "inv_determines",
                         "overtaken_event", "overtaken_meets_spec"]
    technique = "Lean 4 proof (invariant by induction + refinement to the streak counter and to the reader's hard-state bookkeeping) over a hand-written model; correspondence by exhaustive + random differential execution of Checkable::ProcessCheckResult (directly, through ApiActions::ProcessCheckResult and through ExternalCommandProcessor; on objects with and without authority; two calls at once on two threads)"
    level_text = ("Machine-checked theorems (Lean 4 kernel) that for every configuration with max_check_attempts >= 1, every start state "
                  "(never-checked, any state of the shape the machine produces - then held to the whole property at once -, any other state a state "
                  "file may hold) and every finite result history with arbitrary timestamps the model's WHOLE trace (accepted and dropped results) "
                  "satisfies the executable specification: universal invariants, streak characterisation, event rule (volatile exemption only while "
                  "the object is soft after the result), last_hard_state = state of the result at the latest hard event and unchanged otherwise, "
                  "previous_hard_state = hard state before it, last_state, API-visible states = Up/Down projection, vars_after, dropped results "
                  "strictly older (by execution START) and without effect; host traces depend on the results only through Up/Down (trace-level theorem); after every "
                  "history two further results processed one after the other satisfy the clause for CONCURRENT pairs (final state/type/attempt = streak after both, a "
                  "hard event per result exactly where the rule demands it, in one of the two orders), and for two non-OK results the order is irrelevant. "
                  "A result whose report is overtaken by the next result (held by a subscriber of its OnNewCheckResult signal) reports the event of its own place "
                  "in the sequence and both lines satisfy the whole specification (overtaken_event, overtaken_meets_spec; F-C01a, repaired by b75b8e7, "
                  "stays covered by the Y operation and its own clause name). The model is tied to "
                  "the code by running the real ProcessCheckResult on all result sequences of length 5 (7 thorough) x kind x max 1..4 x volatile x "
                  "flapping from the pending state, all sequences of length 3 (4) from every start state (state x type x attempt 1..3 x last/previous "
                  "hard state), all sequences of length 4 (5) on objects whose parent (own host / Dependency, hard-only or soft-counting) goes down "
                  "and up, all sequences of length 4 (5) on objects WITHOUT authority (paused; authority arriving/leaving in the middle), all sequences of length 3 (4) of "
                  "(state, timing) with long-running checks and results whose execution starts inside the previous result's execution window, two results processed "
                  "concurrently on two threads (the first held inside its update section, object lock taken, until the second has been started and sleeps) after seven "
                  "prefixes x kind x max 1..3 (4) x volatile x 16 pairs, a result held in a subscriber of its OnNewCheckResult signal while the next one is processed (Y; 16 pairs after "
                  "six prefixes x kind x max x volatile, one more result afterwards), plus random long histories with parent results, acknowledgements, downtimes, flag changes, equal/older/future timestamps, "
                  "passive results through the API action and the external command, and diffing every observation; the same specification predicate is evaluated on the "
                  "implementation's own trace")
    level_note = ("Trusted: Lean kernel (+ propext, Classical.choice, Quot.sound), the hand-written model's correspondence being sampled (exhaustive to the "
                  "stated lengths, random beyond), harness/driver. Environment (reachability, acknowledgement, downtime, flapping, enable_* flags) is driven "
                  "for real and has no place in the model: the property gives it no influence. Not modelled: notifications, scheduling, last_soft_states_raw, "
                  "vars_before, cluster entry point (event::CheckResult), runtime change of max_check_attempts. Concurrent calls: one forced interleaving per pair "
                  "(second call started while the first holds the object lock in its first attribute write); only what is fixed under the object lock is observed "
                  "(state, type, attempt, last hard state, hard events per result) - soft-vs-no event, vars_after and which result stays last_check_result are read "
                  "outside the lock by the unchanged code and are not compared for pairs.")
    trusted_base = [
        "modelled, not verified: the attempt/state-type/hard-change/event computation of Checkable::ProcessCheckResult, last_hard_state_raw, the two-slot "
        "last_hard_states_raw word / previous_hard_state, last_state_raw, vars_after, Host/Service::GetState/GetLastState/GetLastHardState, the stale-result filter; "
        "flapping, reachability, acknowledgement, downtime, notifications, next-check scheduling are outside the model (the harness drives them to show they "
        "have no influence)",
        "concurrent calls: the harness fixes ONE interleaving (second call entered while the first holds the object lock); other interleavings, and the fields the "
        "unchanged code reads after releasing the lock (soft-vs-none event, vars_after, identity of last_check_result), are not covered",
        "start states other than the never-checked one are installed with the generated setters plus a last_check_result, as the state-file restore does; "
        "the restore code itself is not run",
    ]
    assumptions = [
        "timestamps used by the harness are integers (exact in binary64)",
        "a fresh `new Host()/new Service()` activated as test/icinga-checkresult.cpp does is a never-checked checkable",
        "start states have check_attempt >= 1 and a last_hard_states_raw word below 10000 (every word the code writes is)",
    ]

    def _run(self, harness_cmd, driver, save):
        hrc, herr, drc, lines = runner.pipeline(harness_cmd, [driver], save)
        if hrc != 0:
            raise core.TieBroken("harness:c01:run", f"rc={hrc}\n{herr}")
        if drc != 0:
            raise core.TieBroken("driver:c01:run", "\n".join(lines[-20:]))
        return lines

    def _fails(self, harness, driver, lines, want_prefix, want_sub=""):
        f = self.work("shrink.ops")
        with open(f, "w") as fh:
            fh.write("\n".join(runner.strip_obs(l) for l in lines) + "\n")
        out = self._run([harness, "ops", f], driver, self.work("shrink.out"))
        self._last_out = out
        return any(l.startswith(want_prefix) and want_sub in l for l in out)

    def _examine(self, res, lines, save, harness, driver):
        bad = [l for l in lines if l.startswith("BADLINE")]
        if bad:
            res.corr_failures.append(runner.Finding("corr", "protocol", bad[:5]))
        seen = set()
        for l in lines:
            if l.startswith("SPECFAIL"):
                kv = core.parse_kv(l)
                if kv["clause"] in seen:
                    continue
                seen.add(kv["clause"])
                case = runner.extract_case(save, int(kv["case"]))
                hdr, ops = case[:1], case[1:]
                want = "clause=" + kv["clause"]
                fails = lambda ls: self._fails(harness, driver, ls, "SPECFAIL", want)
                detail = {"driver": l}
                if fails(hdr + ops):
                    ops = runner.ddmin(hdr, ops, fails)
                    fails(hdr + ops)
                    shown = open(self.work("shrink.out")).read().splitlines()
                    detail["min_driver"] = [x for x in self._last_out if x.startswith("SPECFAIL")]
                else:
                    shown = case
                res.spec_failures.append(runner.Finding("spec", "spec:C01:" + kv["clause"], shown, detail))
        seen = set()
        tried = 0
        for l in lines:
            if l.startswith("MISMATCH") and len(seen) < 3 and tried < 8:
                tried += 1
                kv = core.parse_kv(l)
                case = runner.extract_case(save, int(kv["case"]))
                hdr, ops = case[:1], case[1:]
                ops = runner.ddmin(hdr, ops, lambda ls: self._fails(harness, driver, ls, "MISMATCH"))
                self._fails(harness, driver, hdr + ops, "MISMATCH")
                shown = open(self.work("shrink.out")).read().splitlines()
                key = tuple(shown)
                if key in seen:
                    continue
                seen.add(key)
                res.corr_failures.append(runner.Finding("corr", "step-observation", shown, {"driver": l}))

    def correspondence(self, tier, seed, harness, driver):
        res = runner.Result()
        corpus = {}
        # corpus first: hand-written seeds and the minimised witnesses of past breaking changes
        for cf in sorted(glob.glob(os.path.join(core.ROOT, "corpus", "C01", "*.ops"))):
            save = self.work("corpus_" + os.path.basename(cf) + ".out")
            lines = self._run([harness, "ops", cf], driver, save)
            self._examine(res, lines, save, harness, driver)
            for l in lines:
                if l.startswith("STATS"):
                    for k, v in core.parse_kv(l).items():
                        if v.isdigit():
                            corpus["corpus_" + k] = corpus.get("corpus_" + k, 0) + int(v)
        save = self.work("gen.out")
        lines = self._run([harness, "gen", "--seed", str(seed), "--tier", tier], driver, save)
        stats = {}
        for l in lines:
            if l.startswith("STATS"):
                stats = {k: int(v) for k, v in core.parse_kv(l).items()}
        if not stats:
            raise core.TieBroken("driver:c01:no-stats", "\n".join(lines[-20:]))
        stats.update(corpus)
        res.stats = stats
        res.evaluations = stats["steps"]
        res.distinct_nontrivial = stats["nontrivial"]
        res.traces_validated = stats["cases"]
        res.exhaustive = True
        n = 7 if tier == "thorough" else 5
        res.rule = (f"exhaustive: every sequence of {n} results over OK/WARNING/CRITICAL/UNKNOWN from the pending state x "
                    "host/service x max_check_attempts 1..4 x volatile x enable_flapping; every sequence of "
                    f"{n - 2} results from every start state (4 states x soft/hard x attempt 1..3 x last hard state x previous hard state) x kind x "
                    f"max 1..3 x volatile; every sequence of {n - 1} results x kind x max 1..3 x volatile on an object whose parent (own host / "
                    "Dependency; hard-only or soft-counting) goes down before the first or second result and optionally up again "
                    "(all distinct by construction); every sequence of "
                    f"{n - 1} results x kind x max 1..3 x volatile x stand-alone/below a parent on an object without authority (or getting/losing it half-way); every sequence of "
                    f"{n - 2} (state, timing in 4 classes) pairs x kind x max 2..3 with execution windows that overlap the previous result's; 16 concurrent pairs after 7 prefixes "
                    "x kind x max x volatile; plus seeded random histories (max 1..12, length up to 200/1000, equal/older/future "
                    "timestamps, active/passive/API action/external command, restored start states, parent results, acknowledgements, downtimes, flag changes, authority changes, overlapping execution windows, a concurrent pair at the end). "
                    "evaluations = ProcessCheckResult calls; a case counts as non-trivial when it reached a hard problem state "
                    "(counted by the Lean driver)")
        res.samples = runner.extract_case(save, 1234) + ["..."] + runner.extract_case(save, stats["cases"])[:12]
        self._examine(res, lines, save, harness, driver)
        # the generator must really have reached the input classes the level text names (else a silent run proves little)
        if not res.spec_failures and not res.corr_failures:
            for k in ("unreachable_soft", "acked", "in_downtime", "via_api", "via_extcmd", "starts_known", "prev_hard_checked", "dropped",
                      "pairs_hard", "overlap", "paused_events", "overtaken_diff"):
                if stats.get(k, 0) == 0:
                    raise core.TieBroken("driver:c01:coverage", f"generator never reached {k}: {stats}")
        return res

    def replay(self, path, harness, driver):
        data = json.load(open(path))
        lines = [l for l in data.get("case", []) if l[:2] in ("C ", "R ", "S ", "P ", "A ", "D ", "F ", "U ", "X ", "Y ")]
        f = self.work("replay.ops")
        with open(f, "w") as fh:
            fh.write("\n".join(runner.strip_obs(l) for l in lines) + "\n")
        out = self._run([harness, "ops", f], driver, self.work("replay.out"))
        print(open(self.work("replay.out")).read())
        print("\n".join(out))
        return not any(l.startswith(("SPECFAIL", "MISMATCH", "BADLINE")) for l in out)



# Behaviour-preserving rewrites the check was run against (patches under corpus/C01|C02/negative_controls/; documentation only).
NEGATIVE_CONTROLS = [
    "nc1_state_machine_refactor (corpus/C01): ProcessCheckResult's soft/hard branch restructured (problem branch first, merged "
    "'first soft'/'next retry' cases, `max <= attempt`), attempt/stateChange/hardChange as single const expressions, recovery as an "
    "assignment, reordered independent statements, log line reworded and written before OnStateChange",
    "nc2_hard_state_bookkeeping_refactor (corpus/C01): the two-slot hard-state history computed through locals (new*100 + former current, "
    "previous slot by subtraction instead of % 100), statements of the `hardChange || is_volatile` block reordered and moved behind the soft-state "
    "history, stale-result comparison with swapped operands, Host::GetLastHardState() as an explicit OK/WARNING test, the API action's host "
    "exit_status mapping as early return + conditional expression",
    "nc2_notification_guard_spellings (corpus/C02): send/suppress decision as one expression with De Morgan'd guards, merged "
    "`!is_flapping && send && !IsPaused()`, pending test `!= 0`, flapping cancel-out as two bit tests, remembered state via a local",
    "nc3_fire_suppressed_refactor (corpus/C02): FireSuppressedNotifications with the early returns merged in another order, the two "
    "suppression reasons tested in a loop, step-wise `mayProcess`, equality instead of inequality for the state comparison, bits "
    "cleared before the notification is requested, flapping loop with continue-guards",
    "nc4_reason_helpers_and_texts (corpus/C02): NotificationReasonSuppressed as if-chain instead of switch (same evaluation order), "
    "IsLikelyToBeCheckedSoon's clamp via std::min/std::max, stale-result test with swapped operands and another log text",
    "(DESIGN §5) neg_control_1/2: GetChildren() hoisted and aliased in ProcessCheckResult, WhileExpression's sandbox message reworded",
]

CHECK = C01()

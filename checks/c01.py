"""C01 — soft/hard state machine.  See DESIGN.md §2 C01."""
import json
import subprocess

from vlib import core, runner
from .base import Check


class C01(Check):
    prop = "C01"
    required_theorems = ["streak_characterisation", "event_spec", "model_trace_meets_spec",
                         "pending_invariants", "stale_result_ignored", "nondecreasing_never_stale",
                         "host_projection", "soft_implies_last_hard_ok", "dropped_only_if_older"]
    technique = "Lean 4 proof (invariant by induction + refinement to the streak counter) over a hand-written model; correspondence by exhaustive + random differential execution of Checkable::ProcessCheckResult"
    level_text = ("Machine-checked theorems (Lean 4 kernel) that for every configuration with max_check_attempts >= 1, every start state and every "
                  "finite result history the model's trace satisfies the executable specification of the property (streak characterisation, event rule, "
                  "pending invariants, host projection, stale results); the model is tied to the code by running the real ProcessCheckResult on all "
                  "result sequences of length 5 (7 thorough) x kind x max 1..4 x volatile x flapping plus random long histories and diffing every "
                  "observation; the same specification predicate is evaluated on the implementation's own trace")
    level_note = ("Trusted: Lean kernel (+ propext, Classical.choice, Quot.sound), the hand-written model's correspondence being sampled (exhaustive to length 5/7, "
                  "random beyond), harness/driver. Not modelled: flapping, reachability, notifications, scheduling.")
    trusted_base = [
        "modelled, not verified: only the attempt/state-type/hard-change/event computation of Checkable::ProcessCheckResult; "
        "flapping, reachability, notifications, next-check scheduling are outside the model (flapping is toggled by the harness to show it has no influence)",
    ]
    assumptions = [
        "timestamps used by the harness are integers (exact in binary64)",
        "a fresh `new Host()/new Service()` activated as test/icinga-checkresult.cpp does is a never-checked checkable",
    ]

    def _run(self, harness_cmd, driver, save):
        hrc, herr, drc, lines = runner.pipeline(harness_cmd, [driver], save)
        if hrc != 0:
            raise core.TieBroken("harness:c01:run", f"rc={hrc}\n{herr}")
        if drc != 0:
            raise core.TieBroken("driver:c01:run", "\n".join(lines[-20:]))
        return lines

    def _fails(self, harness, driver, lines, want_prefix):
        f = self.work("shrink.ops")
        with open(f, "w") as fh:
            fh.write("\n".join(runner.strip_obs(l) for l in lines) + "\n")
        out = self._run([harness, "ops", f], driver, self.work("shrink.out"))
        return any(l.startswith(want_prefix) for l in out)

    def correspondence(self, tier, seed, harness, driver):
        res = runner.Result()
        save = self.work("gen.out")
        lines = self._run([harness, "gen", "--seed", str(seed), "--tier", tier], driver, save)
        stats = {}
        for l in lines:
            if l.startswith("STATS"):
                stats = {k: int(v) for k, v in core.parse_kv(l).items()}
        if not stats:
            raise core.TieBroken("driver:c01:no-stats", "\n".join(lines[-20:]))
        res.stats = stats
        res.evaluations = stats["steps"]
        res.distinct_nontrivial = stats["nontrivial"]
        res.traces_validated = stats["cases"]
        res.exhaustive = True
        n = 7 if tier == "thorough" else 5
        res.rule = (f"exhaustive: every sequence of {n} results over OK/WARNING/CRITICAL/UNKNOWN from the pending state x "
                    "host/service x max_check_attempts 1..4 x volatile x enable_flapping (distinct by construction); plus seeded "
                    "random histories (max 1..12, length up to 200/1000, equal/older/future timestamps, active/passive). "
                    "evaluations = ProcessCheckResult calls; a case counts as non-trivial when it reached a hard problem state "
                    "(counted by the Lean driver)")
        res.samples = runner.extract_case(save, 1234) + ["..."] + runner.extract_case(save, stats["cases"])[:12]
        bad = [l for l in lines if l.startswith("BADLINE")]
        if bad:
            res.corr_failures.append(runner.Finding("corr", "protocol", bad[:5]))
        seen = set()
        for l in lines:
            if l.startswith("SPECFAIL"):
                kv = core.parse_kv(l)
                if kv["clause"] in seen:
                    continue
                seen.add(kv["clause"])
                case = runner.extract_case(save, int(kv["case"]))
                hdr, ops = case[:1], case[1:]
                ops = runner.ddmin(hdr, ops, lambda ls: self._fails(harness, driver, ls, "SPECFAIL"))
                self._fails(harness, driver, hdr + ops, "SPECFAIL")
                shown = open(self.work("shrink.out")).read().splitlines()
                res.spec_failures.append(runner.Finding("spec", "spec:C01:" + kv["clause"], shown, {"driver": l}))
        seen = set()
        for l in lines:
            if l.startswith("MISMATCH") and len(seen) < 3:
                kv = core.parse_kv(l)
                case = runner.extract_case(save, int(kv["case"]))
                hdr, ops = case[:1], case[1:]
                ops = runner.ddmin(hdr, ops, lambda ls: self._fails(harness, driver, ls, "MISMATCH"))
                self._fails(harness, driver, hdr + ops, "MISMATCH")
                shown = open(self.work("shrink.out")).read().splitlines()
                key = tuple(shown)
                if key in seen:
                    continue
                seen.add(key)
                res.corr_failures.append(runner.Finding("corr", "step-observation", shown, {"driver": l}))
        return res

    def replay(self, path, harness, driver):
        data = json.load(open(path))
        lines = [l for l in data.get("case", []) if l[:2] in ("C ", "R ")]
        f = self.work("replay.ops")
        with open(f, "w") as fh:
            fh.write("\n".join(runner.strip_obs(l) for l in lines) + "\n")
        out = self._run([harness, "ops", f], driver, self.work("replay.out"))
        print(open(self.work("replay.out")).read())
        print("\n".join(out))
        return not any(l.startswith(("SPECFAIL", "MISMATCH", "BADLINE")) for l in out)



# Behaviour-preserving rewrites the check was run against (patches under corpus/C01|C02/negative_controls/; documentation only).
NEGATIVE_CONTROLS = [
    "nc1_state_machine_refactor (corpus/C01): ProcessCheckResult's soft/hard branch restructured (problem branch first, merged "
    "'first soft'/'next retry' cases, `max <= attempt`), attempt/stateChange/hardChange as single const expressions, recovery as an "
    "assignment, reordered independent statements, log line reworded and written before OnStateChange",
    "nc2_notification_guard_spellings (corpus/C02): send/suppress decision as one expression with De Morgan'd guards, merged "
    "`!is_flapping && send && !IsPaused()`, pending test `!= 0`, flapping cancel-out as two bit tests, remembered state via a local",
    "nc3_fire_suppressed_refactor (corpus/C02): FireSuppressedNotifications with the early returns merged in another order, the two "
    "suppression reasons tested in a loop, step-wise `mayProcess`, equality instead of inequality for the state comparison, bits "
    "cleared before the notification is requested, flapping loop with continue-guards",
    "nc4_reason_helpers_and_texts (corpus/C02): NotificationReasonSuppressed as if-chain instead of switch (same evaluation order), "
    "IsLikelyToBeCheckedSoon's clamp via std::min/std::max, stale-result test with swapped operands and another log text",
    "(DESIGN §5) neg_control_1/2: GetChildren() hoisted and aliased in ProcessCheckResult, WhileExpression's sandbox message reworded",
]

CHECK = C01()

"""C06 — acknowledgements: normal vs sticky clearing, expiry, suppression.  See DESIGN.md §2 C06."""
import json
import os

from vlib import core, runner
from .base import Check

OPS = ("C ", "R ", "A ", "X ", "T ", "P ", "D ", "U ", "N ", "F ")


def signature(lines, upto, clause):
    """Hook for a cheap pre-classification of a failing look, so that failures of one clause with different causes can be
    shrunk and reported separately.  No known finding is open for C06, so there is nothing to tell apart."""
    return ""


# Behaviour-preserving rewrites of the anchored code on which the full flow of this check was run (each built as mutated
# object files in scratch and linked into a scratch harness; /repo untouched) and stayed silent: exit 0, no VIOLATION.
# The patches are kept as documentation in corpus/C06/negative_controls/<name>.diff; the check does not apply them.
NEGATIVE_CONTROLS = [
    ("nc1_refactor_pcr", "ProcessCheckResult: acknowledgement rule extracted into a lambda, locals renamed, independent statements reordered, comment-removal flag as one expression"),
    ("nc2_message_texts", "other log / status / exception texts and another exception type (ScriptError) in API action, external commands, cluster handler, Checkable — "
                          "alarmed first: the harness caught std::invalid_argument only and aborted; it now treats any std::exception as 'refused' and any 2xx as 'accepted'"),
    ("nc3_iteration_order", "RemoveAckComments and the comment-expiry timer walk the comments newest-first via a sorted vector; the two acknowledgement attributes are set in the other order"),
    ("nc4_guard_spellings", "GetAcknowledgement with early returns; API action tests OK/Up before the expiry and spells it !(t > now); cluster handler if/else; "
                            "ClearAcknowledgement returns early when nothing is set; RemoveAckComments with one combined condition"),
    ("nc5_layout_and_names", "25-line comment block on top of all six anchored files (every line number moves), added braces, static l_CommentsExpireTimer renamed, flag parsing respelled "
                             "(the check reads no source text and uses no private-member access, so nothing can go stale)"),
    ("nc6_signal_order_handled", "AcknowledgeProblem / ClearAcknowledgement record the change time and fire their signal in another order; GetHandled tests IsAcknowledged() before "
                                 "IsInDowntime(); GetProblem via locals"),
    ("nc7_eager_expiry_guard_order", "round 3, against the new observables: ProcessCheckResult evaluates IsAcknowledged() at its very top (expiry noticed inside "
                                     "the operation, also for an outdated result); ACKNOWLEDGE_SVC_PROBLEM asks IsAcknowledged() before the OK test; the reminder "
                                     "guards ask IsAcknowledged() before IsInDowntime(); Service::GetSeverity via locals; AcknowledgeProblem computes "
                                     "notify && !IsPaused() up front and sets the two attributes in the other order; the stash type via a local — the raw "
                                     "attribute then differs from the model's at some looks, which the driver accepts (still what it was, or already what the "
                                     "readers see)"),
    ("nc8_suppressed_handler_respelled", "round 4, against the F operation: NotificationReasonSuppressed asks IsAcknowledged() first (lazy expiry evaluated also inside a "
                                         "downtime), FireSuppressedNotifications reads the stash before its guards, tests them in one combined condition, asks the "
                                         "suppression rule once (Problem and Recovery share it) and clears the stash bits before requesting the notification"),
]


class C06(Check):
    prop = "C06"
    required_theorems = ["normal_cleared_by_state_change", "sticky_cleared_only_by_recovery", "unchanged_state_keeps_ack",
                         "expiry_clears", "handled_iff", "raw_attribute_consistent", "ack_notify_once", "refuse_ok_or_acked",
                         "refusal_justified", "cleared_event_once", "ack_comments_removed", "ack_comment_as_requested",
                         "removal_removes_comments", "problem_withheld_while_acked", "withheld_problem_is_stashed",
                         "paused_result_is_silent", "reminder_withheld_while_acked", "reminder_only_from_remind",
                         "stash_kept_while_acked", "stash_released_after_clearing", "no_problem_notification_while_acked",
                         "trace_no_problem_notification_while_acked", "stash_only_emptied_by_handler",
                         "withheld_problem_delivered_after_clearing",
                         "stored_expiry_is_requested", "comment_expiry_timer", "downtime_bit",
                         "model_trace_meets_spec", "model_trace_meets_spec_from_init"]
    technique = ("Lean 4 proof (closed form of every operation + relation between the specification's bookkeeping and the model state, "
                 "induction over the history; ghost-counter balance for the events) over a hand-written model; correspondence by exhaustive + "
                 "random differential execution of the real HTTP dispatcher / API actions, external commands, cluster handlers, ProcessCheckResult, "
                 "the comment-expiry timer, NotificationComponent's reminder handler, Checkable::FireSuppressedNotifications (the handler of the "
                 "suppressed-notification timer) and pausing (SetAuthority), with the raw attribute read before and "
                 "GetHandled / GetSeverity / GetAcknowledgement in rotating order after every operation")
    level_text = ("Machine-checked theorems (Lean 4 kernel): for every configuration and every finite sequence of acknowledge (HTTP request / API action, "
                  "ACKNOWLEDGE_*_PROBLEM[_EXPIRE], event::SetAcknowledgement; normal/sticky, any expiry, notify, persistent), remove-acknowledgement "
                  "(three entry points), check results, time advances, runs of the comment-expiry timer, due reminders, runs of the suppressed-notification handler, "
                  "downtimes and pausing coming and going, with arbitrary times, the model's trace satisfies the executable "
                  "specification of the property, 32 clauses without mask: clearing rules, expiry — seen by whichever reader looks first (handled, severity "
                  "class, acknowledgement), the raw attribute lagging only by that lazy expiry —, stored expiry as requested, handled, exactly one "
                  "Acknowledgement notification (none from a paused object, set event in any case), refusals and that nothing else is refused, one cleared "
                  "event per clearing, the acknowledgement comment as requested (entry time, persistence independent of sticky, expiry), its removal by "
                  "clearing results / remove-acknowledgement / the comment timer (expired non-persistent ones only) and by nothing else, a due Problem "
                  "notification either requested or stashed under its own type — withheld exactly while acknowledged / in a downtime / behind an older "
                  "stash —, reminders withheld exactly while acknowledged (downtime, soft state, pending first notification aside), the handler that re-sends "
                  "withheld notifications (FireSuppressedNotifications) keeping the stash and requesting nothing while acknowledged / in a downtime / "
                  "paused and, once the acknowledgement is removed, cleared or run out (hard state), emptying it and requesting the owed notification "
                  "exactly once — of the current state's type, none if the state is back to the one before the suppression "
                  "(state_before_suppression is modelled); at no look of any history is the object acknowledged while a Problem notification or "
                  "reminder was just requested, and nothing but that handler takes a notification out of the stash; without further "
                  "hypothesis (F-C06a, found by this check, is fixed in /repo by 6eaa5f1 and kept as a "
                  "regression case). The model is tied to the code by running the "
                  "real entry points on real Host/Service objects over all sequences of 4 (5 thorough) operations from a 16-symbol alphabet x "
                  "host/service x max_check_attempts 1..2, all sequences of 4 (5) operations from a 9-symbol alphabet around the "
                  "suppressed-notification handler after a first CRITICAL/DOWN result, plus random histories with times, and diffing every observation; the same specification "
                  "predicate is evaluated on the implementation's own trace")
    level_note = ("Trusted: Lean kernel (+ propext, Classical.choice, Quot.sound), sampled correspondence of the hand-written model, harness/driver. "
                  "Modelled since round 3: pausing (bit set by SetAuthority), the stash bits Problem/Recovery of suppressed_notifications, the reminder "
                  "guards of NotificationComponent::NotificationTimerHandler, GetSeverity's acknowledged class, the raw attribute before the look. "
                  "Modelled since round 4: Checkable::FireSuppressedNotifications for state notifications with state_before_suppression (operation F; "
                  "called directly, its 5 s timer stays parked; IsLikelyToBeCheckedSoon and the recent-parent-recovery delay are C02's subject "
                  "and switched off for the call: active checks disabled during it, the service's host has last_state_change 0), the literal integer "
                  "arguments of the external commands (sticky iff 2, notify/persistent iff > 0; vias f/y). "
                  "Not modelled: reachability, flapping, the zone test of the cluster handlers (C13), when the suppressed-notification timer runs and "
                  "its two delays (C02), when a reminder is due (C03; the harness makes it due), whether the comment-expiry timer runs (oracle on the P "
                  "line; the specification does not look at it), a downtime's own life cycle (C05; it enters as the bit 'in effect'); an HTTP request is "
                  "modelled as the API action it reaches; cluster acktype other than 1|2 (a malformed message of an authenticated peer: the property quantifies over normal/sticky "
                  "acknowledgements) and origin->FromZone are not driven. The cluster handler "
                  "accepting an OK/Up object is kept as the anchors' split (theorem cluster_accepts_ok; refusing a relayed decision would let HA members "
                  "diverge). When a state notification is due is C01/C02's rule (sendNotification), evaluated by the specification on the observed "
                  "state/type/attempt. "
                  "Compared are only accepted/refused (any 2xx / any exception), counts of signals (not their order), sorted comment sets, bits — see "
                  "NEGATIVE_CONTROLS in checks/c06.py for the eight harmless rewrites the check stays silent on. One private member is reached by name "
                  "(NotificationComponent::NotificationTimerHandler, as harness/c03.cpp does); renaming it breaks the harness build, not the property.")
    trusted_base = [
        "modelled, not verified: Checkable::GetAcknowledgement/AcknowledgeProblem/ClearAcknowledgement/GetHandled, Host/Service::GetSeverity's "
        "acknowledged class, the acknowledgement, notification-suppression and stash lines of ProcessCheckResult, RemoveAckComments, the "
        "acknowledgement entry points of ApiActions, ExternalCommandProcessor and ClusterEvents, the reminder guards of "
        "NotificationComponent::NotificationTimerHandler, the state-notification part of Checkable::FireSuppressedNotifications with "
        "NotificationReasonSuppressed; the C01 model for state type and hard changes",
        "each case has one Notification object without users, period, times or filters (interval 1 s), constructed directly; no "
        "NotificationComponent is started (requests are counted at OnNotificationsRequested, reminder attempts at OnNotificationSentToAllUsers); "
        "the N operation resets next_notification and calls NotificationTimerHandler on a never-activated component",
        "the harness registers one never-committed ConfigItem for the host name so that Comment::AddComment's host_name validation passes; "
        "Host/Service objects are constructed directly as test/icinga-checkresult.cpp does; comments are created by the code under test "
        "(ConfigObjectUtility::CreateObject in a scratch data directory)",
    ]
    assumptions = [
        "times used by the harness are positive integers (exact in binary64)",
        "no dependency, flapping disabled, no ApiListener (cluster relay is a no-op; pausing is SetAuthority on the checkable only)",
        "downtimes are fixed downtimes constructed directly (as test/icinga-checkresult.cpp does) that are in effect while registered",
        "FireSuppressedNotifications is called directly at moments at which no check is imminent (enable_active_checks off during the call) and "
        "no parent recovered recently (the host of a service case is never checked; its last_state_change is set to 0)",
        "only the comment-expiry timer becomes due when the harness pumps (Timer::VerifFireDue): the timers Checkable::Start creates are "
        "parked in the far future; whether the timer ran is taken from the implementation (oracle input on the P line)",
        "the API user of the HTTP requests holds the permission actions/* (authorisation is C18's subject)",
        "the API action's 'expiry' parameter is passed iff it is non-zero",
        "ConfigObjectsSharedLock can be taken (no reload in progress); worker processes are exec'ed, not only forked, so that they do not share it",
    ]

    def _run(self, harness_cmd, driver, save):
        hrc, herr, drc, lines = runner.pipeline(harness_cmd, [driver], save)
        if hrc != 0:
            raise core.TieBroken("harness:c06:run", f"rc={hrc}\n{herr}")
        if drc != 0:
            raise core.TieBroken("driver:c06:run", "\n".join(lines[-20:]))
        return lines

    def _datadir(self):
        d = self.work("data", "x")
        return os.path.dirname(d)

    def _replay_ops(self, harness, driver, lines, tag):
        f = self.work(tag + ".ops")
        with open(f, "w") as fh:
            fh.write("\n".join(runner.strip_obs(l) for l in lines) + "\n")
        out = self._run([harness, "ops", f, "--datadir", self._datadir()], driver, self.work(tag + ".out"))
        return out

    def _fails(self, harness, driver, lines, prefix, clause=None):
        out = self._replay_ops(harness, driver, lines, "shrink")
        for l in out:
            if l.startswith(prefix) and (clause is None or core.parse_kv(l).get("clause") == clause):
                return True
        return False

    def correspondence(self, tier, seed, harness, driver):
        res = runner.Result()
        save = self.work("gen.out")
        all_lines = []
        stats = {}

        def add_stats(lines):
            for l in lines:
                if l.startswith("STATS"):
                    for k, v in core.parse_kv(l).items():
                        stats[k] = stats.get(k, 0) + int(v)

        # corpus first: hand-written seeds and minimised past disagreements (the former witness of F-C06a among them,
        # now a regression case that has to pass)
        corpus_dir = os.path.join(core.ROOT, "corpus", "C06")
        runs = []
        if os.path.isdir(corpus_dir):
            for name in sorted(os.listdir(corpus_dir)):
                if name.endswith(".ops"):
                    out_path = self.work("corpus_" + name + ".out")
                    lines = self._run([harness, "ops", os.path.join(corpus_dir, name), "--datadir", self._datadir()], driver, out_path)
                    add_stats(lines)
                    runs.append((out_path, lines))
        lines = self._run([harness, "gen", "--seed", str(seed), "--tier", tier, "--datadir", self._datadir()], driver, save)
        gen_stats = {}
        for l in lines:
            if l.startswith("STATS"):
                gen_stats = {k: int(v) for k, v in core.parse_kv(l).items()}
        if not gen_stats:
            raise core.TieBroken("driver:c06:no-stats", "\n".join(lines[-20:]))
        add_stats(lines)
        runs.append((save, lines))

        res.stats = stats
        res.evaluations = stats["steps"]
        res.distinct_nontrivial = gen_stats["nontrivial"]
        res.traces_validated = stats["cases"]
        res.exhaustive = True
        n = 5 if tier == "thorough" else 4
        res.rule = (f"exhaustive: every sequence of {n} operations over a 16-symbol alphabet (results OK/CRITICAL/WARNING, a late OK result, "
                    "acknowledge via HTTP request normal / API action sticky+persistent+expiry / external command / external _EXPIRE command "
                    "sticky+non-persistent / cluster event, remove via HTTP request / external command, time advance with the first reader rotating, "
                    "timer pump, downtime toggle, pause toggle, due reminder) x host/service x max_check_attempts 1..2 from a never-checked object, "
                    "except those beginning with a pure look (advance, pump, reminder: no-ops on a fresh object, so the sequence is its own tail) "
                    f"(distinct by construction); after a first CRITICAL/DOWN result every sequence of {n} operations over a 9-symbol alphabet (results "
                    "OK/CRITICAL/WARNING, sticky acknowledge with expiry via API action / without via cluster event, remove, downtime toggle, pause "
                    "toggle, run of the suppressed-notification handler) that contains a handler run, x the same 4 configurations; "
                    "plus seeded random histories (length up to 40/120, all entry points incl. external commands with literal integer arguments, handler runs, expiry in the future / now / "
                    "past / none, late and outdated results, volatile, max 1..4, pausing, reminders, random first reader) and the corpus. evaluations = operations executed on the real "
                    "code; a case counts as non-trivial when an acknowledgement was set and later cleared, distinct by hash of its operation "
                    "lines (counted by the Lean driver)")
        res.samples = runner.extract_case(save, 12345) + ["..."] + runner.extract_case(save, gen_stats["cases"])[:14]

        for out_path, lines in runs:
            bad = [l for l in lines if l.startswith("BADLINE")]
            if bad:
                res.corr_failures.append(runner.Finding("corr", "protocol", bad[:5]))
            if not any(l.startswith(("SPECFAIL", "MISMATCH")) for l in lines):
                continue
            # one pass over the harness output, keeping only the cases the driver complained about
            wanted = {int(core.parse_kv(l)["case"]) for l in lines if l.startswith(("SPECFAIL", "MISMATCH"))}
            cases, starts = {}, {}
            k = 0
            with open(out_path) as fh:
                for n, fl in enumerate(fh, 1):
                    if fl.startswith("C "):
                        k += 1
                        if k in wanted:
                            starts[k] = n
                            cases[k] = []
                    if k in wanted and fl.strip():
                        cases[k].append(fl.rstrip("\n"))

            def case_of(case_no):
                return list(cases[case_no])

            seen = set()
            for l in lines:
                if not l.startswith("SPECFAIL"):
                    continue
                kv = core.parse_kv(l)
                case_no = int(kv["case"])
                case = case_of(case_no)
                # position of the failing line inside the case (1-based)
                sig = signature(case, int(kv["line"]) - starts[case_no] + 1, kv["clause"])
                key = kv["clause"] + sig
                if key in seen or any(f.what == "spec:C06:" + key for f in res.spec_failures):
                    continue
                seen.add(key)
                hdr, ops = case[:1], case[1:]

                def still(ls, clause=kv["clause"], sig=sig):
                    out = self._replay_ops(harness, driver, ls, "shrink")
                    shown = open(self.work("shrink.out")).read().splitlines()
                    for o in out:
                        if o.startswith("SPECFAIL") and core.parse_kv(o).get("clause") == clause:
                            if signature(shown, int(core.parse_kv(o)["line"]), clause) == sig:
                                return True
                    return False

                ops = runner.ddmin(hdr, ops, still)
                out = self._replay_ops(harness, driver, hdr + ops, "shrink")
                shown = open(self.work("shrink.out")).read().splitlines()
                drv = [o for o in out if o.startswith("SPECFAIL")]
                res.spec_failures.append(runner.Finding("spec", "spec:C06:" + key, shown,
                                                        {"driver": l, "driver_on_minimised": drv}))
            seen_m = set()
            tried_m = 0
            for l in lines:
                if l.startswith("MISMATCH") and len(seen_m) < 3 and tried_m < 6:
                    tried_m += 1   # bounded number of shrink attempts (many mismatches minimise to the same witness)
                    kv = core.parse_kv(l)
                    case = case_of(int(kv["case"]))
                    hdr, ops = case[:1], case[1:]
                    ops = runner.ddmin(hdr, ops, lambda ls: self._fails(harness, driver, ls, "MISMATCH"))
                    out = self._replay_ops(harness, driver, hdr + ops, "shrink")
                    shown = open(self.work("shrink.out")).read().splitlines()
                    key = tuple(runner.strip_obs(s) for s in shown)
                    if key in seen_m:
                        continue
                    seen_m.add(key)
                    res.corr_failures.append(runner.Finding("corr", "step-observation", shown,
                                                            {"driver": l, "driver_on_minimised": [o for o in out if o.startswith("MISMATCH")]}))
        return res

    def matches_known(self, entry, finding):
        # F-C06a is fixed (6eaa5f1); no finding of C06 is open, nothing is suppressed
        return False

    def replay(self, path, harness, driver):
        data = json.load(open(path))
        lines = [l for l in data.get("case", []) if l[:2] in OPS]
        out = self._replay_ops(harness, driver, lines, "replay")
        print(open(self.work("replay.out")).read())
        print("\n".join(out))
        return not any(l.startswith(("SPECFAIL", "MISMATCH", "BADLINE")) for l in out)


CHECK = C06()

"""C16 — apply rules create exactly the matching objects, with or without the name-index fast path.  DESIGN.md §2 C16."""
import subprocess

from vlib import core, runner
from .base import StdCheck

SHADOW = ("host", "service")
API_BOUND = ("obj", "host", "service", "check_command", "check_period", "event_command", "command_endpoint")


def _rule_fields(line):
    w = line.split(" | ")[0].split()
    # R <id> <src> <tgt> <name> <for> <fk> <fv> <bodyhost> exprs...
    if len(w) < 9 or w[0] != "R":
        return None
    return {"tgt": w[3], "for": w[5], "fk": w[6], "fv": w[7], "exprs": w[9:]}


def _shadowing(r):
    bound = ("host",) if r["tgt"] == "H" else SHADOW
    return r["for"] != "-" and (r["fk"] in bound or r["fv"] in bound)


def _fv_keys(line):
    w = line.split(" | ")[0].split()
    if len(w) < 4 or w[0] != "A" or w[3] in ("-", "e"):
        return []
    return [kv.split("=", 1)[0] for kv in w[3].split(",")]


def _kv_after_bar(line):
    return core.parse_kv("x " + line.split(" | ", 1)[1]) if " | " in line else {}


class C16(StdCheck):
    prop = "C16"
    eval_key = "evaluations"
    max_shrunk = 3
    required_theorems = ["target_hosts_sound_complete", "target_services_sound_complete", "indexed_eq_plain_partial",
                         "indexed_eq_plain_counterexample_shadow", "indexed_eq_plain_counterexample_forkind",
                         "indexSafe_of_no_for", "indexed_eq_plain_without_for", "apply_exactly_matching", "order_independent",
                         "api_fast_path_eq_plain_partial", "api_fast_path_counterexample_shadowed_constant",
                         "indexed_full_eq_plain_full_partial", "extended_services", "apply_exactly_matching_full",
                         "order_independent_full", "model_load_meets_spec_partial", "model_load_meets_spec_counterexample"]
    technique = ("Lean 4 proof (soundness/completeness of the filter-shape recogniser by induction on the recognised shape; refinement "
                 "'indexed = plain' as sets via a per-(rule,target) equivalence of outcomes; set comprehension characterisation of plain "
                 "evaluation) over a hand-written model of ApplyRule::AddTargetedRule/GetTargetHosts/GetTargetServices, "
                 "<Type>::EvaluateApplyRules and FilterUtility::GetFilterTargets' fast path with a self-contained filter language; "
                 "correspondence by loading generated configurations through ConfigCompiler/ConfigItem::CommitItems in one freshly exec'ed "
                 "process per configuration and variant (as written / every assign filter wrapped as `(F) && true` / Concurrency 1 and 16) "
                 "and by FilterUtility::GetFilterTargets with and without the wrap")
    level_text = ("Machine-checked theorems (Lean 4 kernel), for every filter of the modelled language (literals, variables, indexer, ==, !=, "
                  "&&, ||, !, arbitrary opaque sub-expressions), every rule list, inventory and environment, no size bounds: whenever "
                  "GetTargetHosts/GetTargetServices extract a name list the filter evaluates - without raising - to 'target is in the list' "
                  "(with filter_vars constants); the name index and plain evaluation accept/reject the same configurations and create the same "
                  "set of objects provided a recognised rule does not name its loop variable host/service and its for-value has the expected "
                  "kind on every target (both exclusions have kernel-checked counterexamples, reproduced on the real code: F-C16a, F-C16b); plain "
                  "evaluation creates an object exactly for the (rule, target, for-instance) triples where some assign is true and no ignore is; "
                  "both are invariant under permuting rules/hosts/services; all of this also for whole loads in which services created by apply Service "
                  "rules become targets of the to-Service rules; the model's whole observable trace (as written / wrapped / 16 threads) satisfies "
                  "the executable specification predicate under the same hypothesis (model_load_meets_spec_partial, with counterexample); the API fast path returns the same set as evaluation provided no "
                  "filter_vars key is a name the evaluator binds itself (counterexample F-C16c, reproduced). The model is tied to the code by "
                  "loading thousands of generated configurations (4 source types x Host/Service targets, for-loops over arrays/dictionaries, "
                  "ignore where, constants, filters concentrated on the recognised shapes and their near misses) and comparing the created "
                  "objects (type, name, loop variables, target seen by the body) with the model in both variants; the same specification "
                  "predicate (fast-path independence, parallel independence, exactly the matching triples, target in scope) is evaluated on "
                  "the implementation's own observations")
    level_note = ("Trusted: Lean kernel (+ propext, Classical.choice, Quot.sound), harness/driver, the sampled correspondence. The values of "
                  "opaque sub-expressions (custom variables, groups, function calls) per target are oracle inputs evaluated by the real "
                  "interpreter. Not modelled: evaluation of the rule body beyond the recorded loop variables/target names, name collisions "
                  "between created objects (the driver rejects such cases explicitly), ignore_on_error, zones/packages, permission filters (C18), "
                  "opaque atoms on services that exist only through apply Service (the generator uses none there).")
    trusted_base = [
        "modelled, not verified: expression evaluation of the nine AST classes the recogniser inspects, Value::operator==/ToBool, "
        "VMOps::GetField for `name`; every other expression is an opaque atom whose truth per target is read from the implementation",
        "a Dependency created on the generator's fixed parent host `zp` itself is a self-dependency rejected by the cycle check (C07); "
        "driver and spec account for that explicitly",
    ]
    assumptions = [
        "one freshly exec'ed process per configuration and variant (ApplyRule/ConfigItem are process-global)",
        "created objects are observed right after ConfigItem::CommitItems (no ActivateItems: avoids timers of ScheduledDowntime/Notification)",
        "generated object names are collision-free (distinct rule names, distinct for-keys) and contain no '!', ',' or '/'",
        "`(F) && true` is never recognised by the name index and has the truth value and errors of F",
    ]
    rule = ("seeded random configurations: 1-6 hosts (+ parent host zp), 0-3 services each, vars.os/groups/arr/dict/mix, optional constants; "
            "optional top-level variables captured with use(); 1-4 apply rules over the 7 legal source/target combinations (apply Service next to "
            "to-Service rules that name the created services: cascade), for-loops over literal or per-object arrays/dictionaries (incl. "
            "loop variables named host/service and kind-mismatched values), assign filters ~55 % recognisable shapes (1-3 disjuncts, swapped "
            "operands, redundant parentheses, duplicates, several assign lines) with single near-miss mutations (!=, constant or number "
            "instead of literal, extra conjunct, host<->service, dropped/duplicated comparison, && for ||, negation), otherwise random boolean "
            "expressions with opaque atoms; ignore where in ~25 %; each configuration loaded as written and wrapped, Concurrency 1 (and 16 on "
            "every 3rd case; always in thorough), plus 0-4 API queries (fast vs wrapped) with filter_vars. evaluations = (rule, target) filter "
            "evaluations of the model's plain semantics + API per-object evaluations; a case is non-trivial when an apply rule created an "
            "object, model index/plain diverge, or the API fast path returned an object; distinct by hash of the case (counted by the Lean driver)")

    # ------------------------------------------------------------------------------------------
    def _signature(self, case, clause):
        """Coarse pre-classification of an un-shrunk failing case: which known pattern could explain it."""
        if clause == "fastpath_independent":
            rs = [r for r in map(_rule_fields, case) if r]
            if any(_shadowing(r) for r in rs):
                return "loopvar"
            if any(r["for"] != "-" for r in rs):
                return "forkind"
        if clause == "api_fastpath_independent":
            if any(k in API_BOUND for l in case for k in _fv_keys(l)):
                return "fvshadow"
        return "other"

    def collect(self, res, lines, save, harness, driver):
        bad = [l for l in lines if l.startswith("BADLINE")]
        if bad:
            res.corr_failures.append(runner.Finding("corr", "protocol", bad[:5]))
        shrunk = {}
        for l in lines:
            if not l.startswith("SPECFAIL"):
                continue
            kv = core.parse_kv(l)
            cl = kv.get("clause", "?")
            case = runner.extract_case(save, int(kv["case"]), self.case_start)
            sig = self._signature(case, cl)
            key = (cl, sig)
            shrunk.setdefault(key, 0)
            res.stats = getattr(res, "stats", {}) or {}
            # failures that no known pattern could explain are always minimised and reported (up to 5);
            # of those that a known pattern may explain, three per pattern are minimised and classified narrowly
            if shrunk[key] >= (5 if sig == "other" else self.max_shrunk):
                continue
            shrunk[key] += 1
            shown = self.shrink(harness, driver, case, "SPECFAIL", "clause=" + cl)
            res.spec_failures.append(runner.Finding("spec", f"spec:{self.prop}:{cl}:{sig}:{shrunk[key]}", shown,
                                                    {"driver": l, "clause": cl}))
        n = 0
        seen_m = set()
        for l in lines:
            if l.startswith("MISMATCH") and n < self.max_shrunk:
                kv = core.parse_kv(l)
                case = runner.extract_case(save, int(kv["case"]), self.case_start)
                shown = self.shrink(harness, driver, case, "MISMATCH")
                key = tuple(shown)
                if key in seen_m:
                    continue
                seen_m.add(key)
                n += 1
                res.corr_failures.append(runner.Finding("corr", kv.get("what", "observation"), shown, {"driver": l}))

    def correspondence(self, tier, seed, harness, driver):
        res = super().correspondence(tier, seed, harness, driver)
        st = res.stats
        need = {"rules_targeted": 100, "rules_regular": 100, "created_by_index": 50, "api_recognised": 20,
                "rules_for": 50, "rules_ignore": 20, "cascade_cases": 20, "rules_use": 50}
        short = {k: st.get(k, 0) for k, v in need.items() if st.get(k, 0) < v}
        if short:
            raise core.TieBroken("harness:c16:coverage", f"generator no longer reaches: {short}")
        return res

    # ------------------------------------------------------------------------------------------
    def _model_agrees(self, case_lines):
        """The minimised case through the driver: the model reproduces the implementation's observations (no MISMATCH)
        and itself predicts the divergence."""
        driver = core.build_driver(self.prop)
        p = subprocess.run([driver], input="\n".join(case_lines) + "\n", stdout=subprocess.PIPE, text=True)
        out = p.stdout.splitlines()
        if any(l.startswith(("MISMATCH", "BADLINE")) for l in out):
            return False, {}
        stats = {}
        for l in out:
            if l.startswith("STATS"):
                stats = core.parse_kv(l)
        return True, stats

    def matches_known(self, entry, finding):
        if finding.kind != "spec":
            return False
        case = [l for l in finding.case_lines if l.strip() and not l.startswith("#")]
        rules = [r for r in map(_rule_fields, case) if r]
        cl = finding.detail.get("clause", "")
        c = entry.get("classifier")
        if c in ("c16_loopvar_shadows_target", "c16_for_kind_mismatch_off_target"):
            # minimised witness: one rule, or two in a cascade (an `apply Service` rule creating the target of a to-Service rule)
            cascade = len(rules) == 2 and sorted(r["tgt"] for r in rules) == ["H", "S"]
            if cl != "fastpath_independent" or not (len(rules) == 1 or cascade):
                return False
            lobs = [_kv_after_bar(l) for l in case if l.startswith("L")]
            if len(lobs) != 1 or not lobs[0].get("p1", "").startswith("ok:") or lobs[0].get("w1") != "rejected":
                return False
            # the model reproduces both observations and itself predicts the divergence; by indexed_full_eq_plain_full_partial
            # the model diverges only if some recognised rule violates IndexSafe: a loop variable named host/service
            # (F-C16a) or a `for` value of the wrong kind on a target (F-C16b)
            ok, stats = self._model_agrees(case)
            if not ok or stats.get("model_index_vs_plain_diverge") != "1":
                return False
            shadow = any(_shadowing(r) for r in rules)
            if c == "c16_loopvar_shadows_target":
                return shadow
            return (not shadow) and any(r["for"] != "-" for r in rules)
        if c == "c16_filter_var_shadowed_by_target":
            if cl != "api_fastpath_independent":
                return False
            alines = [l for l in case if l.startswith("A ")]
            if len(alines) != 1 or not any(k in API_BOUND for k in _fv_keys(alines[0])):
                return False
            ok, stats = self._model_agrees(case)
            return ok and stats.get("api_model_diverge") == "1" and stats.get("api_recognised") == "1"
        return False


CHECK = C16()

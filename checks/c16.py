"""C16 — apply rules create exactly the matching objects, with or without the name-index fast path.  DESIGN.md §2 C16."""
from vlib import core
from .base import StdCheck


# Harmless rewrites on which the check stays green (diffs: corpus/C16/negative_controls/, each run through the whole flow
# on a scratch-linked harness via VERIF_C16_HARNESS; none alarmed after the model took the navigation names from reflection)
NEGATIVE_CONTROLS = [
    "nc1 applyrule-targeted.cpp: for-check extracted into a static helper, locals renamed, GetTargetService rewritten without std::swap",
    "nc2 different exception/CONTEXT texts in the four *-apply.cpp, filterutility.cpp and configitem.cpp (the harness only sees accepted/rejected)",
    "nc3 targeted rules evaluated before regular ones, index filled in reverse, API fast path walks names backwards and returns each object once",
    "nc4 equivalent guards: nested ifs for `!skipFilter && !EvaluateFilter`, single-exit FilterVarsCollideWithTarget, swapped if/else of the fast path",
    "nc5 sound recogniser extension: GetTargetHosts also accepts `F && true` / `true && F` (so even the wrapped variant is indexed)",
    "nc6 a new navigation field `buddy` on Host (host.ti, class regenerated, 44 dependent objects rebuilt): the bound names are read from the "
    "type reflection on every case and are an input of the model (World.navNames), the generator draws colliding keys from them",
]
# Breaking changes re-run after the controls (all alarm with a concrete replay)
SEEDED_CHANGES = [
    "m1 AddTargetedRule without the `for` check (revert of b11cb6d): spec fastpath_independent",
    "m2 FilterVarsCollideWithTarget with hard-coded obj/host/service instead of the navigation-field walk: spec api_fastpath_independent",
    "m3 API fast path without the collision check (revert of 77a9c63): spec api_fastpath_independent",
    "m4 GetComparedName also accepts `!=`: spec fastpath_independent / api_fastpath_independent",
    "m5 GetTargetService does not require the service comparison: spec fastpath_independent / api_fastpath_independent",
]


class C16(StdCheck):
    prop = "C16"
    eval_key = "evaluations"
    max_shrunk = 3
    required_theorems = ["target_hosts_sound_complete", "target_services_sound_complete", "indexed_eq_plain",
                         "apply_exactly_matching", "order_independent", "api_fast_path_eq_plain",
                         "indexed_full_eq_plain_full", "extended_services", "apply_exactly_matching_full",
                         "order_independent_full", "model_load_meets_spec", "model_api_meets_spec"]
    technique = ("Lean 4 proof (soundness/completeness of the filter-shape recogniser by induction on the recognised shape; refinement "
                 "'indexed = plain' as sets via a per-(rule,target) equivalence of outcomes; set comprehension characterisation of plain "
                 "evaluation) over a hand-written model of ApplyRule::AddTargetedRule/GetTargetHosts/GetTargetServices, "
                 "<Type>::EvaluateApplyRules and FilterUtility::GetFilterTargets' fast path with a self-contained filter language; "
                 "correspondence by loading generated configurations through ConfigCompiler/ConfigItem::CommitItems in one freshly exec'ed "
                 "process per configuration and variant (as written / every assign filter wrapped as `(F) && true` / Concurrency 1 and 16) "
                 "and by FilterUtility::GetFilterTargets with and without the wrap")
    level_text = ("Machine-checked theorems (Lean 4 kernel), for every filter of the modelled language (literals, variables, indexer, ==, !=, "
                  "&&, ||, !, arbitrary opaque sub-expressions), every rule list, inventory and environment, no size bounds: whenever "
                  "GetTargetHosts/GetTargetServices extract a name list the filter evaluates - without raising - to 'target is in the list' "
                  "(with filter_vars constants); the name index and plain evaluation accept/reject the same configurations and create the same "
                  "set of objects (indexed_eq_plain, unconditional since commit b11cb6d removed F-C16a/F-C16b: rules with `for` are not indexed); plain "
                  "evaluation creates an object exactly for the (rule, target, for-instance) triples where some assign is true and no ignore is; "
                  "both are invariant under permuting rules/hosts/services; all of this also for whole loads in which services created by apply Service "
                  "rules become targets of the to-Service rules; the model's whole observable trace (as written / wrapped / 16 threads) satisfies "
                  "the executable specification predicate (model_load_meets_spec, model_api_meets_spec); the API fast path returns the same set as "
                  "evaluation (api_fast_path_eq_plain, unconditional since commit 77a9c63 removed F-C16c: no fast path when a filter_vars key is a "
                  "name the evaluator binds itself). The model is tied to the code by "
                  "loading thousands of generated configurations (4 source types x Host/Service targets, for-loops over arrays/dictionaries, "
                  "ignore where, constants, filters concentrated on the recognised shapes and their near misses) and comparing the created "
                  "objects (type, name, loop variables, target seen by the body) with the model in both variants; the same specification "
                  "predicate (fast-path independence, parallel independence, exactly the matching triples, target in scope) is evaluated on "
                  "the implementation's own observations")
    level_note = ("Trusted: Lean kernel (+ propext, Classical.choice, Quot.sound), harness/driver, the sampled correspondence. The values of "
                  "opaque sub-expressions (custom variables, groups, function calls) per target are oracle inputs evaluated by the real "
                  "interpreter. Not modelled: evaluation of the rule body beyond the recorded loop variables/target names, name collisions "
                  "between created objects (the driver rejects such cases explicitly), ignore_on_error, zones/packages, permission filters (C18), "
                  "opaque atoms on services that exist only through apply Service (the generator uses none there). The set of navigation fields "
                  "of Host/Service is an input read from the implementation's type reflection on every case (a new field is not an alarm); the "
                  "API theorems assume only NavOk (`host`/`service` denote the target), which the driver checks on that reflection. "
                  "Negative controls (must stay green) and seeded changes (must alarm): NEGATIVE_CONTROLS / SEEDED_CHANGES in this file, "
                  "diffs under corpus/C16/negative_controls/.")
    trusted_base = [
        "modelled, not verified: expression evaluation of the nine AST classes the recogniser inspects, Value::operator==/ToBool, "
        "VMOps::GetField for `name`; every other expression is an opaque atom whose truth per target is read from the implementation",
        "a Dependency created on the generator's fixed parent host `zp` itself is a self-dependency rejected by the cycle check (C07); "
        "driver and spec account for that explicitly",
    ]
    assumptions = [
        "one freshly exec'ed process per configuration and variant (ApplyRule/ConfigItem are process-global)",
        "created objects are observed right after ConfigItem::CommitItems (no ActivateItems: avoids timers of ScheduledDowntime/Notification)",
        "generated object names are collision-free (distinct rule names, distinct for-keys) and contain no '!', ',' or '/'",
        "`(F) && true` is never recognised by the name index and has the truth value and errors of F",
    ]
    rule = ("seeded random configurations: 1-6 hosts (+ parent host zp), 0-3 services each, vars.os/groups/arr/dict/mix, optional constants; "
            "optional top-level variables captured with use(); 1-4 apply rules over the 7 legal source/target combinations (apply Service next to "
            "to-Service rules that name the created services: cascade), for-loops over literal or per-object arrays/dictionaries (incl. "
            "loop variables named host/service and kind-mismatched values), assign filters ~55 % recognisable shapes (1-3 disjuncts, swapped "
            "operands, redundant parentheses, duplicates, several assign lines) with single near-miss mutations (!=, constant or number "
            "instead of literal, extra conjunct, host<->service, dropped/duplicated comparison, && for ||, negation), otherwise random boolean "
            "expressions with opaque atoms; ignore where in ~25 %; each configuration loaded as written and wrapped, Concurrency 1 (and 16 on "
            "every 3rd case; always in thorough), plus 0-4 API queries (fast vs wrapped) with filter_vars, ~8 % of them with a key that evaluation binds itself (obj, the type "
            "name, every navigation field of the type as read from the type reflection at run time, which also feeds the model's World.navNames; "
            "inventory objects have check_period/event_command/command_endpoint set on some). evaluations = (rule, target) filter "
            "evaluations of the model's plain semantics + API per-object evaluations; a case is non-trivial when an apply rule created an "
            "object or the API fast path returned an object; distinct by hash of the case (counted by the Lean driver)")

    def build_harness(self):
        # negative controls / seeded changes are linked in scratch with one object file swapped (corpus/C16/negative_controls/README):
        # VERIF_C16_HARNESS=<binary> runs the whole flow on such a binary instead of the one built from /repo
        import os
        alt = os.environ.get("VERIF_C16_HARNESS")
        if alt:
            core.log("C16: using harness binary from VERIF_C16_HARNESS=" + alt)
            return alt
        return super().build_harness()

    def correspondence(self, tier, seed, harness, driver):
        res = super().correspondence(tier, seed, harness, driver)
        st = res.stats
        need = {"rules_targeted": 100, "rules_regular": 100, "created_by_index": 50, "api_recognised": 20,
                "rules_for": 50, "rules_ignore": 20, "cascade_cases": 20, "rules_use": 50,
                "bound_checked": 100, "api_collide_nav": 50, "api_collide_recognised": 50}
        short = {k: st.get(k, 0) for k, v in need.items() if st.get(k, 0) < v}
        if short:
            raise core.TieBroken("harness:c16:coverage", f"generator no longer reaches: {short}")
        if st.get("model_index_vs_plain_diverge", 0) or st.get("api_model_diverge", 0):
            raise core.TieBroken("model:c16:diverge", "the model's indexed and plain semantics differ on a generated case although "
                                 f"indexed_eq_plain / api_fast_path_eq_plain are proved: {st}")
        return res

    def matches_known(self, entry, finding):
        return False


CHECK = C16()

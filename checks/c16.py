"""C16 — apply rules create exactly the matching objects, with or without the name-index fast path.  DESIGN.md §2 C16."""
from vlib import core, runner
from .base import StdCheck

MULT = "api_multiplicity_independent"
MULT_KNOWN = "clause=" + MULT + " shape=per_disjunct"
PERM = "api_fastpath_independent"
PERM_KNOWN = "clause=" + PERM + " shape=perm_raises"


# Harmless rewrites on which the check stays green (diffs: corpus/C16/negative_controls/, each run through the whole flow
# on a scratch-linked harness via VERIF_C16_HARNESS; none alarmed after the model took the navigation names from reflection)
NEGATIVE_CONTROLS = [
    "nc1 applyrule-targeted.cpp: for-check extracted into a static helper, locals renamed, GetTargetService rewritten without std::swap",
    "nc2 different exception/CONTEXT texts in the four *-apply.cpp, filterutility.cpp and configitem.cpp (the harness only sees accepted/rejected)",
    "nc3 targeted rules evaluated before regular ones, index filled in reverse, API fast path walks names backwards and returns each object once",
    "nc4 equivalent guards: nested ifs for `!skipFilter && !EvaluateFilter`, single-exit FilterVarsCollideWithTarget, swapped if/else of the fast path",
    "nc5 sound recogniser extension: GetTargetHosts also accepts `F && true` / `true && F` (so even the wrapped variant is indexed)",
    "nc6 a new navigation field `buddy` on Host (host.ti, class regenerated, 44 dependent objects rebuilt): the bound names are read from the "
    "type reflection on every case and are an input of the model (World.navNames), the generator draws colliding keys from them",
]
# Breaking changes re-run after the controls (all alarm with a concrete replay)
SEEDED_CHANGES = [
    "m1 AddTargetedRule without the `for` check (revert of b11cb6d): spec fastpath_independent",
    "m2 FilterVarsCollideWithTarget with hard-coded obj/host/service instead of the navigation-field walk: spec api_fastpath_independent",
    "m3 API fast path without the collision check (revert of 77a9c63): spec api_fastpath_independent",
    "m4 GetComparedName also accepts `!=`: spec fastpath_independent / api_fastpath_independent",
    "m5 GetTargetService does not require the service comparison: spec fastpath_independent / api_fastpath_independent",
    "C16-10 CheckMatches drops rules without a match from the registry after a commit: spec commit_stage_independent (two-stage commit)",
    "C16-11 one ScriptFrame per host shared by all apply Service rules: spec order_independent / no_missing_object (a global constant "
    "named like another rule's loop or closure variable)",
    "C16-12 API fast path without EvaluatePermissionFilter: spec api_fastpath_independent / api_no_extra (restricted ApiUser)",
]


class C16(StdCheck):
    prop = "C16"
    eval_key = "evaluations"
    max_shrunk = 3
    required_theorems = ["target_hosts_sound_complete", "target_services_sound_complete", "indexed_eq_plain",
                         "apply_exactly_matching", "order_independent", "api_fast_path_eq_plain",
                         "indexed_full_eq_plain_full", "extended_services", "apply_exactly_matching_full",
                         "order_independent_full", "statement_order_independent", "statement_permutation",
                         "statement_order_counterexample", "api_multiplicity_partial", "api_multiplicity_counterexample",
                         "model_load_meets_spec", "model_api_meets_spec", "model_api_meets_spec_partial",
                         "staged_commit_eq_single", "staged_commit_eq_plain", "api_permission_fast_path_partial",
                         "api_permission_fast_path_counterexample", "api_permission_respected", "model_api_perm_meets_spec_partial", "rule_scope_only_own", "rule_isolation"]
    technique = ("Lean 4 proof (soundness/completeness of the filter-shape recogniser by induction on the recognised shape; refinement "
                 "'indexed = plain' as sets via a per-(rule,target) equivalence of outcomes; set comprehension characterisation of plain "
                 "evaluation) over a hand-written model of ApplyRule::AddTargetedRule/GetTargetHosts/GetTargetServices, "
                 "<Type>::EvaluateApplyRules and FilterUtility::GetFilterTargets' fast path with a self-contained filter language; "
                 "correspondence by loading generated configurations through ConfigCompiler/ConfigItem::CommitItems in one freshly exec'ed "
                 "process per configuration and variant (as written / every assign filter wrapped as `(F) && true` / Concurrency 1 and 16 / "
                 "the text permuted: rules, assign-ignore statements inside each rule and objects in reverse order) "
                 "and by FilterUtility::GetFilterTargets with and without the wrap, plus the same two filters through "
                 "HttpHandler::ProcessRequest -> ObjectQueryHandler / ActionsHandler (number of results), ~25 % of the queries as an ApiUser "
                 "whose permission carries a filter function; and by a two-stage commit in one process (a subset of the hosts/services is "
                 "committed after the rules and the other objects with an ActivationContext of its own, the way ConfigObjectUtility::CreateObject "
                 "commits a runtime-created object)")
    level_text = ("Machine-checked theorems (Lean 4 kernel), for every filter of the modelled language (literals, variables, indexer, ==, !=, "
                  "&&, ||, !, arbitrary opaque sub-expressions), every rule list, inventory and environment, no size bounds: whenever "
                  "GetTargetHosts/GetTargetServices extract a name list the filter evaluates - without raising - to 'target is in the list' "
                  "(with filter_vars constants); the name index and plain evaluation accept/reject the same configurations and create the same "
                  "set of objects (indexed_eq_plain, unconditional since commit b11cb6d removed F-C16a/F-C16b: rules with `for` are not indexed); plain "
                  "evaluation creates an object exactly for the (rule, target, for-instance) triples where some assign is true and no ignore is; "
                  "both are invariant under permuting rules/hosts/services; all of this also for whole loads in which services created by apply Service "
                  "rules become targets of the to-Service rules; two ways of writing a configuration that differ in the order of the rules, of the "
                  "assign/ignore statements inside the rule bodies (any interleaving; the parser's two accumulators are modelled) and of the objects "
                  "load alike and create the same set wherever every assign/ignore expression has a value (statement_order_independent; "
                  "statement_order_counterexample shows that `||` short-circuiting makes the hypothesis necessary, in the code as in the model); the "
                  "model's whole observable trace (as written / wrapped / 16 threads / permuted text) satisfies "
                  "the executable specification predicate (model_load_meets_spec, model_api_meets_spec); the API fast path returns the same set as "
                  "evaluation (api_fast_path_eq_plain, unconditional since commit 77a9c63 removed F-C16c: no fast path when a filter_vars key is a "
                  "name the evaluator binds itself) and the same NUMBER of entries - hence of object-query results and action invocations - when the "
                  "looked-up names are pairwise distinct (api_multiplicity_partial, model_api_meets_spec_partial); otherwise not "
                  "(api_multiplicity_counterexample = known finding F-C16d, reproduced through the real HTTP handlers); committing any part of "
                  "the inventory in a second stage against the same rule registry is accepted exactly when the single commit is and creates the same "
                  "set of objects, cascade included (staged_commit_eq_single, staged_commit_eq_plain; the staged load is part of the model's trace "
                  "in model_load_meets_spec, clause commit_stage_independent); for an ApiUser whose permission filter admits an arbitrary set of "
                  "objects - and raises on none - the fast path (looked-up objects passed through the permission filter) and evaluation (permission "
                  "filter, then user filter, per object) return the same set and the model meets the restricted-user spec "
                  "(api_permission_fast_path_partial, model_api_perm_meets_spec_partial); a permission filter that raises on an object the query "
                  "does not name fails the evaluated query but not the fast path (api_permission_fast_path_counterexample = known finding F-C16e); "
                  "no object the permission filter does not admit is ever returned on either path, raising or not (api_permission_respected); every rule is evaluated in a scope "
                  "of its own: a name that is not one of the rule's own loop variables, host/service or its own closure variables resolves to the "
                  "global of that name whatever other rules bound for the same target, and what a rule creates does not depend on which other rules "
                  "are loaded with it (rule_scope_only_own, rule_isolation). The model is tied to the code by "
                  "loading thousands of generated configurations (4 source types x Host/Service targets, for-loops over arrays/dictionaries, "
                  "ignore where, constants, filters concentrated on the recognised shapes and their near misses) and comparing the created "
                  "objects (type, name, loop variables, target seen by the body) with the model in both variants; the same specification "
                  "predicate (fast-path independence, parallel independence, commit-stage independence, order independence incl. the statements inside a rule, exactly the "
                  "matching triples - `assign true and ignore not` read over the whole rule whatever the statement order -, target in scope, API "
                  "set and multiplicity independence) is evaluated on the implementation's own observations")
    level_note = ("Trusted: Lean kernel (+ propext, Classical.choice, Quot.sound), harness/driver, the sampled correspondence. The values of "
                  "opaque sub-expressions (custom variables, groups, function calls) per target are oracle inputs evaluated by the real "
                  "interpreter. Not modelled: evaluation of the rule body beyond the recorded loop variables/target names, name collisions "
                  "between created objects (the driver rejects such cases explicitly), ignore_on_error, zones/packages; WHICH objects an ApiUser's "
                  "permission filter admits - or on which it raises - is an oracle input (evaluated per object by the real "
                  "FilterUtility::EvaluateFilter), how GetFilterTargets combines it with the fast path is modelled, errors included. F-C16e "
                  "(known): the driver tags an api_fastpath_independent failure `shape=perm_raises` only when the permission filter raises on "
                  "some object and both observed answers equal the model's; any other difference is reported; "
                  "the second stage of the staged commit contains hosts/services only (no new rules; never the Dependency parent zp); "
                  "opaque atoms on services that exist only through apply Service (the generator uses none there). The set of navigation fields "
                  "of Host/Service is an input read from the implementation's type reflection on every case (a new field is not an alarm); the "
                  "API theorems assume only NavOk (`host`/`service` denote the target), which the driver checks on that reflection. "
                  "Order independence under permuted statements is stated (spec and theorem) only where the property's reading is defined "
                  "(every assign/ignore expression evaluates on every target/instance); elsewhere the permuted load is still compared with the "
                  "model (MISMATCH), which reproduces the short-circuit behaviour exactly. F-C16d (known): the API fast path returns an object once "
                  "per disjunct naming it; the driver tags a multiplicity failure `shape=per_disjunct` only when all six observed counts equal the "
                  "model's, any other multiplicity difference is reported. "
                  "Negative controls (must stay green) and seeded changes (must alarm): NEGATIVE_CONTROLS / SEEDED_CHANGES in this file, "
                  "diffs under corpus/C16/negative_controls/.")
    trusted_base = [
        "modelled, not verified: expression evaluation of the nine AST classes the recogniser inspects, Value::operator==/ToBool, "
        "VMOps::GetField for `name`; every other expression is an opaque atom whose truth per target is read from the implementation",
        "a Dependency created on the generator's fixed parent host `zp` itself is a self-dependency rejected by the cycle check (C07); "
        "driver and spec account for that explicitly",
    ]
    assumptions = [
        "one freshly exec'ed process per configuration and variant (ApplyRule/ConfigItem are process-global)",
        "created objects are observed right after ConfigItem::CommitItems (no ActivateItems: avoids timers of ScheduledDowntime/Notification)",
        "generated object names are collision-free (distinct rule names, distinct for-keys) and contain no '!', ',' or '/'",
        "`(F) && true` is never recognised by the name index and has the truth value and errors of F",
        "the HTTP handlers are driven in-process through HttpHandler::ProcessRequest over a loopback socket pair that no handler touches "
        "(as harness/c18.cpp does); the action used to count invocations is reschedule-check",
    ]
    rule = ("seeded random configurations: 1-6 hosts (+ parent host zp), 0-3 services each, vars.os/groups/arr/dict/mix, optional constants; "
            "optional top-level variables captured with use(); 1-4 apply rules over the 7 legal source/target combinations (apply Service next to "
            "to-Service rules that name the created services: cascade), for-loops over literal or per-object arrays/dictionaries (incl. "
            "loop variables named host/service and kind-mismatched values), assign filters ~55 % recognisable shapes (1-3 disjuncts, swapped "
            "operands, redundant parentheses, duplicates, several assign lines) with single near-miss mutations (!=, constant or number "
            "instead of literal, extra conjunct, host<->service, dropped/duplicated comparison, && for ||, negation), otherwise random boolean "
            "expressions with opaque atoms; ignore where in ~25 %, in 30 % of those a further assign where below it; the assign/ignore statements "
            "of half of the rules with several statements are shuffled (every interleaving); each configuration loaded as written and wrapped, "
            "Concurrency 1 (and 16 on every 3rd case; always in thorough), and with the text permuted (as written on every case, wrapped on "
            "every 3rd), and - 70 % of the cases - committed in two stages (a random non-empty subset of the hosts with their services, sometimes a "
            "single service of an early host, after everything else); ~12 % of the cases define global constants named like the rules' loop "
            "variables (k, v) and closure variable (ux) and let filters of other rules read them; plus 0-4 API queries (fast vs wrapped; sets from GetFilterTargets, counts also through GET /v1/objects/<type> and POST "
            "/v1/actions/reschedule-check), ~25 % of them from a restricted ApiUser (permission filter: name lists, their negation, random "
            "expressions), with filter_vars, ~8 % of them with a key that evaluation binds itself (obj, the type "
            "name, every navigation field of the type as read from the type reflection at run time, which also feeds the model's World.navNames; "
            "inventory objects have check_period/event_command/command_endpoint set on some). evaluations = (rule, target) filter "
            "evaluations of the model's plain semantics + API per-object evaluations; a case is non-trivial when an apply rule created an "
            "object or the API fast path returned an object; distinct by hash of the case (counted by the Lean driver)")

    def build_harness(self):
        # negative controls / seeded changes are linked in scratch with one object file swapped (corpus/C16/negative_controls/README):
        # VERIF_C16_HARNESS=<binary> runs the whole flow on such a binary instead of the one built from /repo
        import os
        alt = os.environ.get("VERIF_C16_HARNESS")
        if alt:
            core.log("C16: using harness binary from VERIF_C16_HARNESS=" + alt)
            return alt
        return super().build_harness()

    # F-C16d: the multiplicity clause fails on ~9 % of the generated queries in the modelled way; one witness is shrunk (the corpus
    # file a_known_c16d_api_dup.ops comes first), the others are counted. Failures of any other shape go through the normal path.
    def collect(self, res, lines, save, harness, driver):
        rest = []
        for l in lines:
            if l.startswith("SPECFAIL") and MULT_KNOWN in l:
                self._dups = getattr(self, "_dups", 0) + 1
                if not getattr(self, "_dup_done", False):
                    self._dup_done = True
                    kv = core.parse_kv(l)
                    case = runner.extract_case(save, int(kv["case"]), self.case_start)
                    shown = self.shrink(harness, driver, case, "SPECFAIL", MULT_KNOWN)
                    res.spec_failures.append(runner.Finding("spec", f"spec:{self.prop}:{MULT}", shown,
                                                            {"driver": l, "shape": "per_disjunct"}))
                continue
            if l.startswith("SPECFAIL") and PERM_KNOWN in l:
                # F-C16e: same treatment (one witness shrunk, the others counted)
                self._praise = getattr(self, "_praise", 0) + 1
                if not getattr(self, "_praise_done", False):
                    self._praise_done = True
                    kv = core.parse_kv(l)
                    case = runner.extract_case(save, int(kv["case"]), self.case_start)
                    shown = self.shrink(harness, driver, case, "SPECFAIL", PERM_KNOWN)
                    res.spec_failures.append(runner.Finding("spec", f"spec:{self.prop}:{PERM}", shown,
                                                            {"driver": l, "shape": "perm_raises"}))
                continue
            rest.append(l)
        super().collect(res, rest, save, harness, driver)

    def correspondence(self, tier, seed, harness, driver):
        self._dups, self._dup_done = 0, False
        self._praise, self._praise_done = 0, False
        res = super().correspondence(tier, seed, harness, driver)
        st = res.stats
        need = {"rules_targeted": 100, "rules_regular": 100, "created_by_index": 50, "api_recognised": 20,
                "rules_for": 50, "rules_ignore": 20, "cascade_cases": 20, "rules_use": 50,
                "bound_checked": 100, "api_collide_nav": 50, "api_collide_recognised": 50,
                "perm_runs": 100, "rules_assign_after_ignore": 100, "api_counts": 100,
                "late_runs": 500, "late_only_rules": 100, "late_only_indexed_rules": 30, "shared_name_reads": 30,
                "api_perm": 200, "api_perm_denied_named": 30}
        short = {k: st.get(k, 0) for k, v in need.items() if st.get(k, 0) < v}
        if short:
            raise core.TieBroken("harness:c16:coverage", f"generator no longer reaches: {short}")
        if st.get("model_index_vs_plain_diverge", 0) or st.get("api_model_diverge", 0):
            raise core.TieBroken("model:c16:diverge", "the model's indexed and plain semantics differ on a generated case although "
                                 f"indexed_eq_plain / api_fast_path_eq_plain are proved: {st}")
        # a multiplicity failure of any other shape is reported before the known one (the runner reports one finding per clause)
        res.spec_failures.sort(key=lambda f: f.detail.get("shape") in ("per_disjunct", "perm_raises"))
        res.extra["known_f_c16d_occurrences"] = self._dups
        res.extra["known_f_c16e_occurrences"] = self._praise
        return res

    @staticmethod
    def _obs(line):
        if " | " not in line:
            return {}
        return dict(t.split("=", 1) for t in line.split(" | ", 1)[1].split() if "=" in t)

    def matches_known(self, entry, finding):
        """F-C16d, narrowly: the finding is the multiplicity clause in the shape the driver tagged `per_disjunct` (all six observed
        counts are the model's: one entry per disjunct that names an existing object), and on every A line of the minimised witness
        that shows a difference the two SETS agree, the evaluated filter returns every object once and the fast path, the object query
        and the action handler return the same surplus."""
        if entry.get("classifier") == "c16_api_perm_raises":
            return self._matches_perm_raises(finding)
        if entry.get("classifier") != "c16_api_dup_per_disjunct":
            return False
        if finding.kind != "spec" or finding.what != f"spec:{self.prop}:{MULT}" or finding.detail.get("shape") != "per_disjunct":
            return False
        differing = 0
        for l in finding.case_lines:
            if not l.startswith("A "):
                continue
            o = self._obs(l)
            try:
                nf, ns, dups = int(o["nf"]), int(o["ns"]), int(o["dups"])
            except (KeyError, ValueError):
                return False
            if (o.get("nf"), o.get("qf"), o.get("af")) == (o.get("ns"), o.get("qs"), o.get("as")):
                continue
            differing += 1
            names = [] if o.get("slow") in ("ok:-", None) else o["slow"][3:].split(",")
            if not (o.get("fast") == o.get("slow") and o["slow"].startswith("ok:") and ns == len(names) and ns >= 1
                    and dups >= 1 and nf == ns + dups and o.get("qf") == str(nf) and o.get("af") == str(nf)
                    and o.get("qs") == str(ns) and o.get("as") == str(ns)):
                return False
        return differing >= 1

    def _matches_perm_raises(self, finding):
        """F-C16e, narrowly: the finding is api_fastpath_independent in the shape the driver tagged `perm_raises` (the permission
        filter raises on an object, both observed answers are the model's), and on every A line of the minimised witness whose two
        answers differ the query comes from a restricted user (p=), the permission filter raises on some object (E in pb=), the
        evaluated query failed (slow=err, 404 from the handlers) and the fast path answered without an error."""
        if finding.kind != "spec" or finding.what != f"spec:{self.prop}:{PERM}" or finding.detail.get("shape") != "perm_raises":
            return False
        differing = 0
        for l in finding.case_lines:
            if not l.startswith("A "):
                continue
            o = self._obs(l)
            if o.get("fast") == o.get("slow"):
                continue
            differing += 1
            if not (" p=" in l.split(" | ", 1)[0] and "E" in o.get("pb", "") and o.get("slow") == "err"
                    and o.get("fast", "").startswith("ok:") and o.get("qs", "").startswith("e") and o.get("as", "").startswith("e")):
                return False
        return differing >= 1


CHECK = C16()

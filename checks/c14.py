"""C14 — state and modified attributes survive restart; files old-or-new at any crash.  DESIGN.md §2 C14."""
import glob
import json
import os

from vlib import core, runner
from .base import Check


def _unhex(h):
    try:
        return "" if h == "-" else bytes.fromhex(h).decode("utf-8", "replace")
    except ValueError:
        return ""


def _cases(path):
    """Split a harness output file into cases (a case starts at `C M`, `I`, `S` or `W`)."""
    out, cur = [], []
    with open(path, errors="replace") as f:
        for line in f:
            line = line.rstrip("\n")
            if line.startswith("B "):      # information about a restart batch, not part of any case
                continue
            if line.startswith(("C M ", "S ", "W ", "I ")):
                if cur:
                    out.append(cur)
                cur = [line]
            elif cur:
                cur.append(line)
            else:
                out.append([line])
    if cur:
        out.append(cur)
    return out


def _related(a, b):
    ta, tb = a.split("."), b.split(".")
    n = min(len(ta), len(tb))
    return ta[:n] == tb[:n]


def _hex(s):
    b = s.encode("utf-8")
    return b.hex() if b else "-"


def _jhex(v):
    return _hex(json.dumps(v, separators=(",", ":"), ensure_ascii=True))


def _junhex(h):
    return json.loads(_unhex(h))


class _Witness:
    """A modify/restore case with the implementation's observations (lines as the harness printed them)."""

    def __init__(self, lines):
        self.init = _junhex(lines[0].split()[2])
        self.ops = []
        for l in lines[1:]:
            pre, _, post = l.partition(" | ")
            w, o = pre.split(), post.split()
            if not w or w[0] not in ("M", "R") or len(o) < 3:
                continue
            self.ops.append({"kind": w[0], "attr": _unhex(w[1]), "value": _junhex(w[2]) if w[0] == "M" else None,
                             "ok": o[0] == "1", "fields": _junhex(o[1]), "orig": _junhex(o[2])})

    def lines(self):
        out = ["C M " + _jhex(self.init)]
        for op in self.ops:
            out.append("M %s %s" % (_hex(op["attr"]), _jhex(op["value"])) if op["kind"] == "M" else "R " + _hex(op["attr"]))
        return out

    def before(self, i):
        """(attribute tree, original_attributes) the implementation reported before operation i"""
        if i == 0:
            return self.init, None
        return self.ops[i - 1]["fields"], self.ops[i - 1]["orig"]


def _get(tree, toks):
    cur = tree
    for k in toks:
        if not isinstance(cur, dict) or k not in cur:
            return False, None
        cur = cur[k]
    return True, cur


def _has_dotted(v):
    if isinstance(v, dict):
        return any("." in k or _has_dotted(x) for k, x in v.items())
    if isinstance(v, list):
        return any(_has_dotted(x) for x in v)
    return False


def _undot(v):
    if isinstance(v, dict):
        return {k.replace(".", "_"): _undot(x) for k, x in v.items()}
    if isinstance(v, list):
        return [_undot(x) for x in v]
    return v


def _populate(tree, toks):
    """make `toks` exist below the dictionary `tree` (value 0) without overwriting anything; False if impossible"""
    cur = tree
    for k in toks[:-1]:
        if k not in cur or cur[k] is None:
            cur[k] = {}
        if not isinstance(cur[k], dict):
            return False
        cur = cur[k]
    cur.setdefault(toks[-1], 0)
    return True


def _hazards(w):
    """The recorded hazards present in a witness, from the implementation's own observations:
       ("dotkey", i)             the dictionary overwritten by modify i has a key containing '.'          (F-C14g)
       ("absent", i, [paths])    modify i targets a path that does not exist / its new dictionary value has keys the
                                 old dictionary lacks (`paths` = what would have to exist)                  (F-C14a)
       ("emptydict", i, [path])  modify i overwrites an empty dictionary with a non-dictionary            (F-C14d)
       ("below", i)              modify i is on a branch (at, below or above) for which nested originals are already
                                 recorded: they stem from another context than the one the new entry is recorded in (F-C14b)"""
    hz = []
    for i, op in enumerate(w.ops):
        if op["kind"] != "M" or not op["ok"]:
            continue
        toks = op["attr"].split(".")
        prev, orig = w.before(i)
        ex, old = _get(prev, toks)
        if not ex:
            hz.append(("absent", i, [toks]))
        elif len(toks) > 1 and isinstance(old, dict):
            if any("." in k for k in old):
                hz.append(("dotkey", i))
            new = [k for k in op["value"]] if isinstance(op["value"], dict) else []
            missing = [toks + [k] for k in new if k not in old]
            if missing:
                hz.append(("absent", i, missing))
            elif not old:
                hz.append(("emptydict", i, [toks + ["_"]]))
        if isinstance(orig, dict) and len(toks) > 1:
            for key in orig:
                kt = key.split(".")
                n = min(len(kt), len(toks))
                if len(kt) > 1 and kt[:n] == toks[:n]:
                    hz.append(("below", i))
                    break
    return hz


_HAZARD_CLASS = {"dotkey": "dotted-key-flattened", "absent": "absent-recorded-as-null",
                 "emptydict": "old-value-empty-dictionary", "below": "modified-below-modified"}
_HAZARD_ORDER = ["dotkey", "absent", "emptydict", "below"]


def _repair(w, hz):
    """Repair ONE recorded hazard in the witness, keeping the operations and their paths; returns the new lines or None.
       dotkey    -> the dots in dictionary keys become '_' (initial tree and every value)
       absent /
       emptydict -> the missing path is made to exist beforehand (value 0): in the initial tree and in every earlier
                    dictionary value written at a prefix of it
       below     -> the modifications made before operation i become part of the configuration: the case restarts
                    from the tree observed before i, on a never-modified object, with the remaining operations"""
    import copy
    kind, i = hz[0], hz[1]
    n = copy.deepcopy(w)
    if kind == "dotkey":
        n.init = _undot(n.init)
        for op in n.ops:
            if op["kind"] == "M":
                op["value"] = _undot(op["value"])
        return n.lines()
    if kind in ("absent", "emptydict"):
        okay = False
        for path in hz[2]:
            if path[0] in n.init:
                if n.init[path[0]] is None and len(path) > 1:
                    n.init[path[0]] = {}
                if len(path) > 1 and isinstance(n.init[path[0]], dict):
                    okay = _populate(n.init[path[0]], path[1:]) or okay
            for op in n.ops[:i]:
                if op["kind"] != "M" or not isinstance(op["value"], dict):
                    continue
                q = op["attr"].split(".")
                if len(q) < len(path) and path[:len(q)] == q:
                    okay = _populate(op["value"], path[len(q):]) or okay
        return n.lines() if okay else None
    if kind == "below":
        if i == 0:
            return None
        n.init = copy.deepcopy(w.before(i)[0])
        n.ops = n.ops[i:]
        return n.lines()
    return None


def _retype(v):
    if isinstance(v, dict):
        return {("type_" if k == "type" else k): _retype(x) for k, x in v.items()}
    if isinstance(v, list):
        return [_retype(x) for x in v]
    return v


def _has_type(v):
    if isinstance(v, dict):
        return "type" in v or any(_has_type(x) for x in v.values())
    if isinstance(v, list):
        return any(_has_type(x) for x in v)
    return False


def _round6(v):
    """every number replaced by the nearest decimal with six fractional digits (what ConfigWriter::EmitNumber prints)"""
    if isinstance(v, bool):
        return v
    if isinstance(v, float):
        r = float("%.6f" % v)
        return int(r) if r == int(r) and abs(r) < 2 ** 53 else r
    if isinstance(v, dict):
        return {k: _round6(x) for k, x in v.items()}
    if isinstance(v, list):
        return [_round6(x) for x in v]
    return v


def _s_hazards(spec):
    """("typekey",): a dictionary with a `type` key inside the generated state (F-C14c);
       ("numround",): a modification holds a number that is not a decimal with <= 6 fractional digits (C17's F-C17a)"""
    hz = []
    if _has_type(spec.get("st")):
        hz.append(("typekey",))
    mods = spec.get("mods") or []
    if any(json.dumps(_round6(m[1])) != json.dumps(m[1]) and _round6(m[1]) != m[1] for m in mods):
        hz.append(("numround",))
    if _stale_nested(spec):
        hz.append(("stalenested",))
    return hz


def _stale_nested(spec):
    """indices of the modifications of a path BELOW a whole attribute that was modified earlier and is restored before the
    shutdown: their original entries survive the restore of the whole attribute (F-C14j)"""
    mods = spec.get("mods") or []
    restored = set(spec.get("restore") or [])
    out = []
    for j, m in enumerate(mods):
        toks = str(m[0]).split(".")
        if len(toks) > 1 and toks[0] in restored and any(str(mods[i][0]) == toks[0] for i in range(j)):
            out.append(j)
    return out


def _s_repair(spec, hz):
    import copy
    n = copy.deepcopy(spec)
    if hz[0] == "typekey":
        n["st"] = _retype(n["st"])
    elif hz[0] == "numround":
        n["mods"] = [[m[0], _round6(m[1])] for m in n["mods"]]
    elif hz[0] == "stalenested":
        drop = set(_stale_nested(n))
        n["mods"] = [m for j, m in enumerate(n["mods"]) if j not in drop]
    return n


_S_CLASS = {"typekey": "type-key-in-state", "numround": "number-rounded-to-6-digits", "stalenested": "stale-nested-after-whole-restore"}


# Harmless rewrites of the anchored code that the check must NOT alarm on (each built as a mutated object file in scratch,
# linked into a scratch harness and run through the correspondence + attribution flow: no VIOLATION, 0 mismatches).
# The patches are kept as documentation in corpus/C14/negative_controls/ (not applied by the check).
NEGATIVE_CONTROLS = [
    "nc1 ModifyAttribute/RestoreAttribute: locals renamed, independent statements reordered, the 'record unless recorded' step extracted into a static helper, "
    "guards respelled (empty-then/else, flag loop instead of match/continue), both exception texts reworded",
    "nc2 DumpObjects/RestoreObjects/DumpModifiedAttributes: types and objects written in REVERSE order, members of the persistent record listed in another order, "
    "an extra counter, log texts reworded, `continue` guard turned into an if-block, empty original_attributes skipped early",
    "nc3 AtomicFile: mkostemp(O_CLOEXEC) with another temp-name pattern, fchmod(fd) instead of chmod(path), 512-byte stream buffer (39 writes instead of 7), "
    "the directory fsync'ed after the rename, error text reworded",
    "nc4 Serialize/Deserialize: merged `continue` guards, nested ifs instead of `(a && !b) || !c`, renamed locals, exception text reworded",
    "nc5 IcingaApplication::DumpModifiedAttributes (reached through private-member access): static helper renamed, comments/lines/braces moved, warning text reworded",
]
# What had to be loosened for them (nc3 alarmed first, by construction of the old harness): temp files are recognised by
# 'name extends the target's name' instead of the literal '.tmp.' infix, fchmod/mkostemp/mkstemps are interposed, the protocol
# predicate accepts any temp-file-only calls with every write fsync'ed before the single rename (theorem
# crash_old_or_new_conforming covers exactly those words), leftover temp files after the next dump are a statistic, and the
# bytes of a killed write are compared as a denotation (sorted netstring frames / per-object script blocks) so that the
# order of objects in the file is free.


class C14(Check):
    prop = "C14"
    required_theorems = ["modify_restore_partial", "modify_restore_absent_counterexample", "modify_restore_below_counterexample",
                         "modify_restore_emptydict_counterexample", "restore_clears_original", "modify_restore_meets_spec_partial",
                         "whole_modify_restore_identity", "nested_whole_restore_meets_spec",
                         "modification_survives_restart", "modifications_survive_restart",
                         "serialize_id", "deserialize_id_partial", "typed_objects_roundtrip", "typed_model_refines_tree_model", "restart_getters_meet_spec", "typed_objects_safe_mode_counterexample", "stale_nested_original_counterexample", "state_roundtrip_partial", "state_roundtrip_counterexample", "restart_meets_spec", "kill_meets_spec",
                         "crash_old_or_new", "crash_old_or_new_conforming", "complete_write_reads_new", "crash_leaves_only_tmp", "atomic_write_conforms"]
    technique = ("Lean 4 proof (round-trip law composed with C20's JSON/netstring theorems, algebra of modify/restore on value trees, invariant over "
                 "the system-call sequence of AtomicFile under an adversarial crash model) about hand-written executable models; correspondence by "
                 "differential execution of the real ModifyAttribute/RestoreAttribute, DumpObjects -> fresh process -> RestoreObjects + modified-attributes "
                 "replay, and of every kill point of DumpObjects / DumpModifiedAttributes / AtomicFile::Write with the system calls interposed")
    level_text = ("Machine-checked theorems (Lean 4 kernel): restore(modify(o,p,v),p) = o for every object, path and value where p names an existing non-dictionary "
                  "value (or a top-level attribute) and nothing at or below p is already modified, and restore removes every original entry at/below the path; any list of such modifications on pairwise unrelated paths (made in attribute-string order) "
                  "is written by DumpModifiedAttributes exactly and its replay at start-up reproduces the object exactly; "
                  "modifying and restoring a whole top-level attribute gives back exactly the same object INCLUDING every original entry of the modifications outstanding below it "
                  "(whole_modify_restore_identity, any recorded originals), and the four-step trace modify f.k..; modify f; restore f; restore f.k.. of a never-modified object returns to the initial tree and "
                  "satisfies specM, whose state now keeps the modifications subsumed by a whole-attribute modification dormant and demands their restorability again once the whole attribute is back (nested_whole_restore_meets_spec); "
                  "for every getter-view tree (typed objects such as CheckResult/PerfdataValue and plain dictionaries nested in arrays/dictionaries to any depth) Deserialize(Serialize(t), safe_mode=false) = t: "
                  "objects come back as objects of their type at every depth, while safe mode degrades them (typed_objects_roundtrip, typed_objects_safe_mode_counterexample), the typed model agrees with the tree model on everything Serialize shows "
                  "(typed_model_refines_tree_model) and the model's restart of any well-formed getter record satisfies specRestartPinned (restart_getters_meet_spec); "
                  "for every list of objects whose state trees name only registered types in `type` keys and EVERY chunking of the state file, reading the frames, "
                  "JSON-decoding and deserialising onto freshly created objects yields exactly the dumped state (C20's json_roundtrip and "
                  "frames_split_regardless_of_chunking composed with Serialize/Deserialize); for every prefix of AtomicFile's system-call sequence and every crash "
                  "view (any earlier directory state, arbitrary contents of unsynced files) the target path reads as the complete old or the complete new content, and the only new name left behind is the temp file; "
                  "two whole-trace theorems tie these to the executable specification: restart_meets_spec (for every object list and chunking the model's restart satisfies specRestartState and "
                  "specRestartPinned - every attribute the statement names, pinned per type in Spec.lean, is in the record with the identical value - given that the pinned attributes are among the "
                  "dumped fields, which clause stateInventory checks against the type reflection of the running binary on every run) and kill_meets_spec (for every prefix of AtomicFile's calls the "
                  "classified read satisfies specCrash, `completed` exactly for the full sequence, with and without a previous version of the file: for a path that did not exist the only outcomes are absent or complete-new). "
                  " The full statements are false of the pinned code in several ways (F-C14a-d,g and C17's number rounding), carried as kernel-checked counterexamples "
                  "and/or corpus witnesses replayed on the real code on every run; EVERY failing generated case is minimised and attributed to a known finding only "
                  "if repairing that recorded hazard in the minimised witness and re-running makes the failure vanish. The models are tied to the code by running the real functions on the same inputs "
                  "and diffing every observation; the specification predicates are evaluated on the implementation's own observations")
    level_note = ("Trusted: Lean kernel (+ propext, Classical.choice, Quot.sound), sampled correspondence, harness/driver, the kernel's rename atomicity and fsync "
                  "durability (parameters of the crash model). Assumed, fuzzed by C20: binary64 <-> text. Not modelled: the ConfigWriter/DSL text of the "
                  "modified-attributes script (C17; which entries are written with which values and their replay ARE modelled and diffed on every S case; numbers and dictionary keys whose text does not read "
                  "back enter as oracles computed with the real writer+compiler), field types/validation, a user dictionary whose `type` names a registered type (reproduced: instantiated as that type, "
                  "recorded under F-C14c), Start()/OnStateLoaded effects after the restore, the API/cluster/external-command entry points of ModifyAttribute. "
                  "Since round 4 driven and killed at every call: ConfigObjectUtility::CreateObject writing a runtime object's config file (kind createobj), and the first-time "
                  "writes of the state file / modified-attributes file / AtomicFile::Write onto a path without previous version (kinds statenew, modattrnew, writenew); a descriptor opened on the target "
                  "path itself is tracked like the temp file. The object/dictionary distinction of nested state values is observed through the getters (tag @object), modelled (deserializeT) and diffed.")
    trusted_base = [
        "modelled, not verified: ConfigObject::ModifyAttribute/RestoreAttribute on value trees (deep-clone semantics), Serialize/Deserialize on trees with the `type` special case, "
        "DumpObjects/RestoreObject framing, AtomicFile's call sequence (mkstemp, chmod, write*, fsync, close, rename)",
        "the file-system model: rename replaces atomically; an fsync that returned before the rename makes the data durable; directory operations reach the disk in order; "
        "unsynced files may hold anything after a crash, the directory may be in any earlier state since the last quiescent point",
        "a Dictionary is a key-sorted association list; `dSet` on an existing key replaces in place, otherwise inserts in key order (identical to std::map on sorted lists)",
        "typed fields convert Empty to their zero value (notes \"\", check_interval 0): applied by the driver to the model's result",
        "the harness injects process kills (exit inside the k-th intercepted call, also after half of a write's bytes), not power loss",
        "a typed object is recognised in the getter view by the harness's tag member `@object` (GetterTree); the model instantiates a dictionary with a registered `type` "
        "keeping its members (DeserializeObject's field filtering/defaults are not modelled: the state generator only nests objects Serialize produced itself)",
        "the list of attributes the statement names (pinnedState in Spec.lean: Host/Service 26/28, Notification 9, Downtime 3, User 1, CheckResult 16) is hand-pinned; their "
        "FAState flags are read from Type::GetFieldInfo of the running binary (I lines) and their values through GetField, independent of Serialize's attribute mask",
    ]
    assumptions = [
        "number tokens are compared as printed by the same JsonEncode before and after (binary64 <-> text round trip is C20's assumption)",
        "dictionaries carrying a `type` key inside state never name a registered type unless Serialize produced them (CheckResult inside last_check_result)",
        "the previous version of a file is durable when the next write starts (quiescent start of the crash model)",
        "generated attribute values are well-typed for their field and contain no unterminated '$' (ValidateField is not modelled)",
        "the config writer's number text (C17) enters the modified-attributes model as an oracle: what ConfigWriter::EmitValue + ConfigCompiler make of each modified number",
        "likewise the writer's text of dictionary keys: a key k for which the written `{ k = 1 }` does not evaluate to the same dictionary makes the model reject the whole script (F-C14i, fixed by 3c83e1d; the generator emits every lexer keyword as a key)",
        "restart objects are registered but not activated (no Start(), no timers); Notification/Downtime/Comment/User state is set through the reflection setters",
    ]
    rule = ("seeded random: modify/restore sequences (2-8 operations; paths vars, vars.k, vars.k.k, vars.k.k.k over existing and absent keys, notes, check_interval, unknown "
            "fields; restores of modified, unmodified, related paths; values: scalars, arrays, dictionaries, `type` keys, odd keys) on a fresh real Host per case, diffed "
            "after every operation (attribute tree + original_attributes); attribute inventories of Host, Service, Notification, Downtime, Comment, User, CheckResult from the type "
            "reflection against the pinned list; stop/start: real Host/Service/Notification/Downtime/Comment/User objects with generated state (executions, last_check_result "
            "with command/perfdata/vars_after trees, every pinned scalar, notification bookkeeping, downtime triggers) and runtime modifications (values with dictionary keys the config "
            "writer must quote: leading digits, keywords, punctuation) -> DumpObjects + DumpModifiedAttributes -> freshly exec'ed process -> same "
            "config -> RestoreObjects + ActivateItems(withModAttrs) -> Serialize compared AND the pinned attributes compared through their getters; crash points: EVERY intercepted call (plus half-written writes) of DumpObjects, "
            "DumpModifiedAttributes and AtomicFile::Write, a forked child dies inside it, the parent reads the file and loads it with the real loader in another child. "
            "round 4: modify/restore cases with a directed pattern (modify leaves below vars, modify vars as a whole once or twice, restore vars, restore the leaves; counter `reactivated`); "
            "restart specs with PerfdataValue OBJECTS inside performance_data and below dictionaries/arrays of executions (counter s_obj_in_array) and with a nested modification, a whole-attribute modification and the "
            "restore of the latter before the shutdown (s_restored_above); kill kinds writenew/statenew/modattrnew (no previous file) and createobj (real ConfigObjectUtility::CreateObject into a scratch _api package). "
            "evaluations = operations + restarts + kills; a case is non-trivial (distinct by hash of its operation lines, counted by the Lean driver) when it restored a "
            "modified path, went through a restart, or is a write with kill points")
    _last_driver = []

    # ---- plumbing

    def _run(self, harness_cmd, driver, save):
        hrc, herr, drc, lines = runner.pipeline(harness_cmd, [driver], save)
        if hrc != 0:
            raise core.TieBroken("harness:c14:run", f"rc={hrc} (4 = a forked child hung)\n{herr}")
        if drc != 0:
            raise core.TieBroken("driver:c14:run", "\n".join(lines[-20:]))
        return lines

    def _try(self, harness, driver, case_lines, want_prefix, want_sub=""):
        """Run a case through harness(ops)+driver; returns (fails, harness output lines, driver lines)."""
        f = self.work("shrink.ops")
        with open(f, "w") as fh:
            fh.write("\n".join(runner.strip_obs(l) for l in case_lines) + "\n")
        try:
            out = self._run([harness, "ops", f], driver, self.work("shrink.out"))
        except core.TieBroken:
            self._last_driver = []
            return False, [], []
        shown = open(self.work("shrink.out"), errors="replace").read().splitlines()
        hit = [l for l in out if l.startswith(want_prefix) and want_sub in l]
        self._last_driver = out
        return bool(hit), shown, hit

    def _shrink_m(self, harness, driver, case, fail_line_idx, prefix, sub=""):
        """Minimise a modify/restore case: keep the operations on paths related to the failing one, then ddmin."""
        hdr, ops = case[:1], case[1:fail_line_idx + 1]
        target = _unhex(runner.strip_obs(ops[-1]).split()[1]) if ops else ""
        rel = [l for l in ops if _related(_unhex(runner.strip_obs(l).split()[1]), target)]
        fails = lambda ls: self._try(harness, driver, ls, prefix, sub)[0]
        if rel and fails(hdr + rel):
            ops = rel
        elif not fails(hdr + ops):
            return case, []
        ops = runner.ddmin(hdr, ops, fails)
        _, shown, hit = self._try(harness, driver, hdr + ops, prefix, sub)
        return shown, hit

    def _batch(self, harness, driver, witnesses):
        """Run many modify/restore cases (lists of operation lines, first = `C M`) in ONE harness+driver run.
        Returns per case: (lines with the implementation's observations, driver lines about that case)."""
        if not witnesses:
            return []
        f = self.work("batch.ops")
        with open(f, "w") as fh:
            for w in witnesses:
                fh.write("\n".join(runner.strip_obs(l) for l in w) + "\n")
        out = self._run([harness, "ops", f], driver, self.work("batch.out"))
        shown = _cases(self.work("batch.out"))
        per = {}
        for l in out:
            if l.startswith(("SPECFAIL", "MISMATCH", "BADLINE")):
                per.setdefault(int(core.parse_kv(l).get("case", "0")), []).append(l)
        if len(shown) != len(witnesses):
            raise core.TieBroken("harness:c14:batch", f"{len(witnesses)} cases in, {len(shown)} out")
        return [(shown[i], per.get(i + 1, [])) for i in range(len(witnesses))]

    @staticmethod
    def _spec_fails(dl, clause):
        return any(l.startswith("SPECFAIL") and ("clause=" + clause) in l for l in dl)

    def _minimise_all(self, harness, driver, failing):
        """failing: list of (case lines, index of the failing line, clause).  Every failing case is reduced to the
        operations on paths related to the failing restore and then minimised by single deletions until 1-minimal,
        all candidates of a round in one batch.  Returns ({witness tuple: [clause, occurrences]}, [unreproducible])."""
        cand, clause_of, count = [], {}, {}
        for case, idx, clause in failing:
            hdr, ops = case[:1], case[1:idx + 1]
            target = _unhex(runner.strip_obs(ops[-1]).split()[1]) if ops else ""
            rel = [l for l in ops if _related(_unhex(runner.strip_obs(l).split()[1]), target)]
            cand.append((tuple(runner.strip_obs(l) for l in hdr + rel), tuple(runner.strip_obs(l) for l in hdr + ops), clause))
        firsts = sorted({c[0] for c in cand})
        res = dict(zip(firsts, self._batch(harness, driver, [list(w) for w in firsts])))
        fallback = sorted({c[1] for c in cand if not self._spec_fails(res[c[0]][1], c[2])})
        res2 = dict(zip(fallback, self._batch(harness, driver, [list(w) for w in fallback])))
        current, lost = {}, []
        for red, full, clause in cand:
            if self._spec_fails(res[red][1], clause):
                w = red
            elif self._spec_fails(res2[full][1], clause):
                w = full
            else:
                lost.append((list(full), clause))
                continue
            current.setdefault(w, [clause, 0])[1] += 1
        for _ in range(12):
            variants, owner = [], []
            for w in current:
                if len(w) <= 2:
                    continue
                for j in range(1, len(w)):
                    variants.append(list(w[:j] + w[j + 1:]))
                    owner.append(w)
            if not variants:
                break
            out = self._batch(harness, driver, variants)
            smaller = {}
            for v, o, (_, dl) in zip(variants, owner, out):
                if o not in smaller and self._spec_fails(dl, current[o][0]):
                    smaller[o] = tuple(v)
            if not smaller:
                break
            nxt = {}
            for w, (clause, n) in current.items():
                k = smaller.get(w, w)
                if k in nxt:
                    nxt[k][1] += n
                else:
                    nxt[k] = [clause, n]
            current = nxt
        return current, lost

    def _attribute_all(self, harness, driver, witnesses):
        """Attribute MINIMISED witnesses to recorded findings by repair-and-rerun: in each round ONE recorded hazard
        present in the witness (fixed order: dotted key, absent path/new keys, empty dictionary, modification at or
        below a modified path) is repaired and the witness re-run; a witness is explained by the hazards repaired
        iff the failure then vanishes (no SPECFAIL, MISMATCH or BADLINE).  Returns {witness: (classes or [], trail, lines with obs)}."""
        ws = list(witnesses)
        obs = self._batch(harness, driver, [list(w) for w in ws])
        # a recorded finding is a behaviour of the pinned code, i.e. one the faithful model reproduces: a witness on
        # which model and implementation DISAGREE is never attributed to a known finding
        state = {w: {"lines": o[0], "classes": [], "trail": [], "ok": False, "shown": o[0],
                     "done": any(l.startswith(("MISMATCH", "BADLINE")) for l in o[1])} for w, o in zip(ws, obs)}
        for _ in range(4):
            todo, reps = [], []
            for w in ws:
                st = state[w]
                if st["done"]:
                    continue
                try:
                    wit = _Witness(st["lines"])
                    hz = sorted(_hazards(wit), key=lambda h: (_HAZARD_ORDER.index(h[0]), h[1]))
                except Exception:
                    hz = []
                rep = None
                for h in hz:
                    rep = _repair(wit, h)
                    if rep is not None and tuple(rep) != tuple(runner.strip_obs(l) for l in st["lines"]):
                        break
                    rep = None
                if rep is None:
                    st["done"] = True
                    continue
                st["trail"].append("%s@%d" % (h[0], h[1]))
                if _HAZARD_CLASS[h[0]] not in st["classes"]:
                    st["classes"].append(_HAZARD_CLASS[h[0]])
                todo.append(w)
                reps.append(rep)
            if not todo:
                break
            for w, (lines, dl) in zip(todo, self._batch(harness, driver, reps)):
                st = state[w]
                if any(l.startswith(("MISMATCH", "BADLINE")) for l in dl):
                    st["done"] = True
                elif not any(l.startswith("SPECFAIL") for l in dl):
                    st["done"], st["ok"] = True, True
                else:
                    st["lines"] = lines
        return {w: ((st["classes"] if st["ok"] else []), st["trail"], st["shown"]) for w, st in state.items()}

    def _attribute_s(self, harness, driver, line, clause):
        classes, trail = [], []
        try:
            spec = _junhex(runner.strip_obs(line).split()[1])
        except Exception:
            return [], trail
        for _ in range(3):
            hz = [h for h in _s_hazards(spec) if h[0] not in trail]
            if not hz:
                return [], trail
            spec = _s_repair(spec, hz[0])
            trail.append(hz[0][0])
            classes.append(_S_CLASS[hz[0][0]])
            fails, shown, _ = self._try(harness, driver, ["S " + _jhex(spec)], "SPECFAIL", "")
            if not shown or any(l.startswith(("MISMATCH", "BADLINE")) for l in self._last_driver):
                return [], trail
            if not fails:
                return classes, trail
        return [], trail

    def _collect(self, res, lines, save, harness, driver, origin):
        bad = [l for l in lines if l.startswith("BADLINE")]
        if bad:
            res.corr_failures.append(runner.Finding("corr", "protocol", bad[:5], {"origin": origin}))
        spec = [l for l in lines if l.startswith("SPECFAIL")]
        mism = [l for l in lines if l.startswith("MISMATCH")]
        cases, starts = None, []
        if spec or mism:
            cases = _cases(save)
            pos = 1
            for c in cases:
                starts.append(pos)
                pos += len(c)
        # Specification failures on the implementation's trace.  EVERY failing modify/restore case is minimised
        # (batched) and attributed by repair-and-rerun; what cannot be reproduced in isolation, minimised or
        # attributed is reported as it is (class `other` -> VIOLATION).  Nothing is classified from unminimised data.
        failing_m, others = [], []
        for l in spec:
            kv = core.parse_kv(l)
            cno = int(kv["case"])
            case = cases[cno - 1] if 0 < cno <= len(cases) else []
            if not case:
                continue
            idx = int(kv["line"]) - starts[cno - 1]
            if case[0].startswith("C M "):
                failing_m.append((case, idx, kv.get("clause", "?")))
            else:
                others.append((l, kv, case, idx))
        by_class = {}
        if failing_m:
            minimal, lost = self._minimise_all(harness, driver, failing_m)
            attributed = self._attribute_all(harness, driver, minimal)
            for w, (clause, n) in minimal.items():
                classes, trail, shown = attributed[w]
                cls = "+".join(classes) if classes else "other"
                g = by_class.setdefault((clause, cls), {"classes": classes, "shown": shown, "n": 0, "witnesses": 0, "trail": trail, "extra": []})
                g["n"] += n
                g["witnesses"] += 1
                if not classes and g["witnesses"] > 1 and len(g["extra"]) < 4:
                    g["extra"].append(shown)
            for full, clause in lost[:3]:
                res.spec_failures.append(runner.Finding("spec", f"spec:C14:{clause}:other", full,
                                                        {"origin": origin, "note": "fails in its run but not in isolation: not attributed"},
                                                        {"clause": clause, "classes": []}))
        for (clause, cls), g in sorted(by_class.items()):
            res.spec_failures.append(runner.Finding(
                "spec", f"spec:C14:{clause}:{cls}", g["shown"],
                {"origin": origin, "minimised": True, "failing_cases": g["n"], "distinct_minimal_witnesses": g["witnesses"],
                 "repairs": g["trail"], "further_unattributed_witnesses": g["extra"]},
                {"clause": clause, "classes": g["classes"]}))
        s_groups, unattributed = {}, {}
        for l, kv, case, idx in others:
            clause = kv.get("clause", "?")
            if case[0].startswith("S "):
                disagree = any(m.startswith("MISMATCH") and core.parse_kv(m).get("case") == kv.get("case") for m in mism)
                classes, trail = ([], ["model and implementation disagree"]) if disagree else \
                    self._attribute_s(harness, driver, case[0], clause)
                shown = case[:1]
                if not classes:
                    unattributed.setdefault(clause, []).append((l, shown, trail, disagree))
                    continue
            else:
                classes, trail = [], []
                shown = [case[0]] + [c for k, c in enumerate(case) if k == idx and k > 0]
            cls = "+".join(classes) if classes else "other"
            g = s_groups.setdefault((clause, cls), {"classes": classes, "shown": shown, "n": 0, "trail": trail, "driver": l, "extra": []})
            g["n"] += 1
            if not classes and g["n"] > 1 and len(g["extra"]) < 4:
                g["extra"].append(shown)
        # Unattributed restart cases.  The objects of one restart share the state file and the modified-attributes script, so
        # a failing object may be collateral damage of another one: the replay is (1) one of the first cases if it fails on
        # its own in the same way (where model and implementation disagreed in the run they must disagree alone too -
        # otherwise it fails alone for another, possibly recorded, reason), else (2) the failing cases minimised together.
        for clause, items in sorted(unattributed.items()):
            any_dis = any(it[3] for it in items)

            def fails(ls, any_dis=any_dis, clause=clause):
                ok = self._try(harness, driver, ls, "SPECFAIL", "clause=" + clause)[0]
                return ok and (not any_dis or any(m.startswith("MISMATCH") for m in self._last_driver))
            l0, shown, trail, _ = items[0]
            solo = None
            for it in items[:3]:
                if fails(it[1]):
                    solo = True
                    l0, shown, trail = it[0], it[1], it[2]
                    break
            if not solo and len(items) > 3:
                together = [it[1][0] for it in items]
                if fails(together):
                    shown = runner.ddmin([], together, fails)
                    solo = len(shown) == 1
            s_groups[(clause, "other")] = {"classes": [], "shown": shown, "n": len(items), "trail": trail, "driver": l0, "solo": solo,
                                           "extra": [it[1] for it in items[1:4]] if not solo else []}
        for (clause, cls), g in sorted(s_groups.items()):
            res.spec_failures.append(runner.Finding(
                "spec", f"spec:C14:{clause}:{cls}", g["shown"],
                {"driver": g["driver"], "origin": origin, "minimised": True, "failing_cases": g["n"], "repairs": g["trail"],
                 "fails_on_its_own": g.get("solo"), "further_unattributed_witnesses": g["extra"]},
                {"clause": clause, "classes": g["classes"]}))
        # disagreements between model and implementation
        seen = set()
        for l in mism:
            kv = core.parse_kv(l)
            if kv.get("op") in seen or len(seen) >= 3:
                continue
            seen.add(kv.get("op"))
            cno = int(kv["case"])
            case = cases[cno - 1] if 0 < cno <= len(cases) else []
            shown = case
            if case and case[0].startswith("C M "):
                idx = int(kv["line"]) - starts[cno - 1]
                shown, _ = self._shrink_m(harness, driver, case, idx, "MISMATCH")
            res.corr_failures.append(runner.Finding("corr", "observation:" + kv.get("op", "?"), shown[:40], {"driver": l, "origin": origin}))

    def matches_known(self, entry, finding):
        classes = (finding.classifier_data or {}).get("classes") or []
        # every hazard that had to be repaired must be a recorded (status known) finding; this entry is one of them
        names = {"c14_" + c.replace("-", "_") for c in classes}
        if not names or entry.get("classifier") not in names:
            return False
        known = {e.get("classifier") for e in core.known_findings(self.prop) if e.get("status") == "known"}
        return names <= known

    # ---- the run

    def correspondence(self, tier, seed, harness, driver):
        res = runner.Result()
        total = {}
        for cf in sorted(glob.glob(os.path.join(core.ROOT, "corpus", "C14", "*.ops"))):
            save = self.work("corpus.out")
            lines = self._run([harness, "ops", cf], driver, save)
            self._collect(res, lines, save, harness, driver, "corpus:" + os.path.basename(cf))
            for l in lines:
                if l.startswith("STATS"):
                    for k, v in core.parse_kv(l).items():
                        if v.isdigit():
                            total["corpus_" + k] = total.get("corpus_" + k, 0) + int(v)
        save = self.work("gen.out")
        lines = self._run([harness, "gen", "--seed", str(seed), "--tier", tier], driver, save)
        stats = {}
        for l in lines:
            if l.startswith("STATS"):
                stats = {k: int(v) for k, v in core.parse_kv(l).items() if v.lstrip("-").isdigit()}
        if not stats:
            raise core.TieBroken("driver:c14:no-stats", "\n".join(lines[-20:]))
        stats.update(total)
        res.stats = stats
        res.evaluations = stats.get("steps", 0)
        res.distinct_nontrivial = stats.get("nontrivial", 0)
        res.traces_validated = stats.get("cases", 0)
        res.exhaustive = False
        res.rule = self.rule
        cs = _cases(save)
        pick = [c for c in cs if c[0].startswith("W ")][:1] + [c for c in cs if c[0].startswith("C M ")][1:3] + [c for c in cs if c[0].startswith("S ")][:1]
        res.samples = [l[:400] for c in pick for l in c[:6]]
        res.extra = {"faults_fired_per_syscall": {k[6:]: v for k, v in stats.items() if k.startswith("fault_")}}
        self._collect(res, lines, save, harness, driver, "generated")
        need = {"s_restored_before_dump": 4, "s_too_deep": 1, "s_notification": 5, "s_downtime": 5, "s_user": 3, "s_comment": 1,
                "s_writer_keys": 10, "inventories": 7, "inventory_pinned": 60, "s_modattrs": 20,
                "s_obj_in_array": 5, "s_restored_above": 3, "kills_no_previous": 12, "kills_create_object": 8, "reactivated": 20}
        short = {k: stats.get(k, 0) for k, v in need.items() if stats.get(k, 0) < v}
        if stats.get("state_file_max_bytes", 0) < 2 * 65536:
            short["state_file_max_bytes"] = stats.get("state_file_max_bytes", 0)
        if short and not any(not (f.classifier_data or {}).get("classes") for f in res.spec_failures):
            # (with a spec failure at hand the concrete failing input is the better report: e.g. a dump that writes nothing)
            raise core.TieBroken("generator:c14:coverage", "the restart generator no longer produces a state file above 128 KiB, "
                                 "modifications restored before the last dump, state beyond the decoder's nesting limit, every object kind, "
                                 "dictionary keys the config writer must quote, or the attribute inventories: " + str(short))
        return res

    def replay(self, path, harness, driver):
        data = json.load(open(path))
        lines = [l for l in data.get("case", []) if l.strip()]
        f = self.work("replay.ops")
        with open(f, "w") as fh:
            fh.write("\n".join(runner.strip_obs(l) for l in lines) + "\n")
        out = self._run([harness, "ops", f], driver, self.work("replay.out"))
        print(open(self.work("replay.out")).read())
        print("\n".join(out))
        return not any(l.startswith(("SPECFAIL", "MISMATCH", "BADLINE")) for l in out)


CHECK = C14()

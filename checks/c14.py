"""C14 — state and modified attributes survive restart; files old-or-new at any crash.  DESIGN.md §2 C14."""
import glob
import json
import os

from vlib import core, runner
from .base import Check


def _unhex(h):
    try:
        return "" if h == "-" else bytes.fromhex(h).decode("utf-8", "replace")
    except ValueError:
        return ""


def _cases(path):
    """Split a harness output file into cases (a case starts at `C M`, `S` or `W`)."""
    out, cur = [], []
    with open(path, errors="replace") as f:
        for line in f:
            line = line.rstrip("\n")
            if line.startswith(("C M ", "S ", "W ")):
                if cur:
                    out.append(cur)
                cur = [line]
            elif cur:
                cur.append(line)
            else:
                out.append([line])
    if cur:
        out.append(cur)
    return out


def _related(a, b):
    ta, tb = a.split("."), b.split(".")
    n = min(len(ta), len(tb))
    return ta[:n] == tb[:n]


# tags the driver attaches to a failing modify/restore case (descriptive, see Driver/C14.lean: modifyTags)
_A = {"absent", "newkeys"}                 # something that did not exist is recorded as Empty and restored as explicit null
_B = {"below", "again"}                    # a path at or below an already modified path is modified again


class C14(Check):
    prop = "C14"
    required_theorems = ["modify_restore_partial", "modify_restore_absent_counterexample", "modify_restore_below_counterexample",
                         "modify_restore_emptydict_counterexample", "restore_clears_original", "modify_restore_meets_spec_partial",
                         "serialize_id", "deserialize_id_partial", "state_roundtrip_partial", "state_roundtrip_counterexample",
                         "crash_old_or_new", "complete_write_reads_new", "atomic_write_conforms"]
    technique = ("Lean 4 proof (round-trip law composed with C20's JSON/netstring theorems, algebra of modify/restore on value trees, invariant over "
                 "the system-call sequence of AtomicFile under an adversarial crash model) about hand-written executable models; correspondence by "
                 "differential execution of the real ModifyAttribute/RestoreAttribute, DumpObjects -> fresh process -> RestoreObjects + modified-attributes "
                 "replay, and of every kill point of DumpObjects / DumpModifiedAttributes / AtomicFile::Write with the system calls interposed")
    level_text = ("Machine-checked theorems (Lean 4 kernel): restore(modify(o,p,v),p) = o for every object, path and value where p names an existing non-dictionary "
                  "value (or a top-level attribute) and nothing at or below p is already modified, and restore removes every original entry at/below the path; "
                  "for every list of objects whose state trees name only registered types in `type` keys and EVERY chunking of the state file, reading the frames, "
                  "JSON-decoding and deserialising onto freshly created objects yields exactly the dumped state (C20's json_roundtrip and "
                  "frames_split_regardless_of_chunking composed with Serialize/Deserialize); for every prefix of AtomicFile's system-call sequence and every crash "
                  "view (any earlier directory state, arbitrary contents of unsynced files) the target path reads as the complete old or the complete new content. "
                  " The full statements are false of the pinned code in four ways, each carried as a kernel-checked counterexample "
                  "and replayed on the real code on every run (known findings). The models are tied to the code by running the real functions on the same inputs "
                  "and diffing every observation; the specification predicates are evaluated on the implementation's own observations")
    level_note = ("Trusted: Lean kernel (+ propext, Classical.choice, Quot.sound), sampled correspondence, harness/driver, the kernel's rename atomicity and fsync "
                  "durability (parameters of the crash model). Assumed, fuzzed by C20: binary64 <-> text. Not modelled: ConfigWriter/DSL round trip of the "
                  "modified-attributes script (C17; exercised end to end by the S cases), field types/validation, a user dictionary whose `type` names a registered type.")
    trusted_base = [
        "modelled, not verified: ConfigObject::ModifyAttribute/RestoreAttribute on value trees (deep-clone semantics), Serialize/Deserialize on trees with the `type` special case, "
        "DumpObjects/RestoreObject framing, AtomicFile's call sequence (mkstemp, chmod, write*, fsync, close, rename)",
        "the file-system model: rename replaces atomically; an fsync that returned before the rename makes the data durable; directory operations reach the disk in order; "
        "unsynced files may hold anything after a crash, the directory may be in any earlier state since the last quiescent point",
        "a Dictionary is a key-sorted association list; `dSet` on an existing key replaces in place, otherwise inserts in key order (identical to std::map on sorted lists)",
        "typed fields convert Empty to their zero value (notes \"\", check_interval 0): applied by the driver to the model's result",
        "the harness injects process kills (exit inside the k-th intercepted call, also after half of a write's bytes), not power loss",
    ]
    assumptions = [
        "number tokens are compared as printed by the same JsonEncode before and after (binary64 <-> text round trip is C20's assumption)",
        "dictionaries carrying a `type` key inside state never name a registered type unless Serialize produced them (CheckResult inside last_check_result)",
        "the previous version of a file is durable when the next write starts (quiescent start of the crash model)",
        "generated attribute values are well-typed for their field and contain no unterminated '$' (ValidateField is not modelled)",
    ]
    rule = ("seeded random: modify/restore sequences (2-8 operations; paths vars, vars.k, vars.k.k, vars.k.k.k over existing and absent keys, notes, check_interval, unknown "
            "fields; restores of modified, unmodified, related paths; values: scalars, arrays, dictionaries, `type` keys, odd keys) on a fresh real Host per case, diffed "
            "after every operation (attribute tree + original_attributes); stop/start: real Host/Service objects with generated state (executions, last_check_result "
            "with command/perfdata/vars_after trees, scalar state) and runtime modifications -> DumpObjects + DumpModifiedAttributes -> freshly exec'ed process -> same "
            "config -> RestoreObjects + ActivateItems(withModAttrs) -> Serialize compared; crash points: EVERY intercepted call (plus half-written writes) of DumpObjects, "
            "DumpModifiedAttributes and AtomicFile::Write, a forked child dies inside it, the parent reads the file and loads it with the real loader in another child. "
            "evaluations = operations + restarts + kills; a case is non-trivial (distinct by hash of its operation lines, counted by the Lean driver) when it restored a "
            "modified path, went through a restart, or is a write with kill points")
    max_groups = 150

    # ---- plumbing

    def _run(self, harness_cmd, driver, save):
        hrc, herr, drc, lines = runner.pipeline(harness_cmd, [driver], save)
        if hrc != 0:
            raise core.TieBroken("harness:c14:run", f"rc={hrc} (4 = a forked child hung)\n{herr}")
        if drc != 0:
            raise core.TieBroken("driver:c14:run", "\n".join(lines[-20:]))
        return lines

    def _try(self, harness, driver, case_lines, want_prefix, want_sub=""):
        """Run a case through harness(ops)+driver; returns (fails, harness output lines, driver lines)."""
        f = self.work("shrink.ops")
        with open(f, "w") as fh:
            fh.write("\n".join(runner.strip_obs(l) for l in case_lines) + "\n")
        try:
            out = self._run([harness, "ops", f], driver, self.work("shrink.out"))
        except core.TieBroken:
            return False, [], []
        shown = open(self.work("shrink.out"), errors="replace").read().splitlines()
        hit = [l for l in out if l.startswith(want_prefix) and want_sub in l]
        return bool(hit), shown, hit

    def _shrink_m(self, harness, driver, case, fail_line_idx, prefix, sub=""):
        """Minimise a modify/restore case: keep the operations on paths related to the failing one, then ddmin."""
        hdr, ops = case[:1], case[1:fail_line_idx + 1]
        target = _unhex(runner.strip_obs(ops[-1]).split()[1]) if ops else ""
        rel = [l for l in ops if _related(_unhex(runner.strip_obs(l).split()[1]), target)]
        fails = lambda ls: self._try(harness, driver, ls, prefix, sub)[0]
        if rel and fails(hdr + rel):
            ops = rel
        elif not fails(hdr + ops):
            return case, []
        ops = runner.ddmin(hdr, ops, fails)
        _, shown, hit = self._try(harness, driver, hdr + ops, prefix, sub)
        return shown, hit

    @staticmethod
    def _tags(driver_line):
        t = core.parse_kv(driver_line).get("tags", "none")
        return set() if t == "none" else set(t.split("+"))

    def _collect(self, res, lines, save, harness, driver, origin):
        bad = [l for l in lines if l.startswith("BADLINE")]
        if bad:
            res.corr_failures.append(runner.Finding("corr", "protocol", bad[:5], {"origin": origin}))
        cases = None
        spec = [l for l in lines if l.startswith("SPECFAIL")]
        mism = [l for l in lines if l.startswith("MISMATCH")]
        if spec or mism:
            cases = _cases(save)
            starts, pos = [], 1
            for c in cases:
                starts.append(pos)
                pos += len(c)
        # specification failures on the implementation's trace: one representative per tag set, minimised
        groups = {}
        for l in spec:
            kv = core.parse_kv(l)
            groups.setdefault((kv.get("clause", "?"), kv.get("tags", "none")), []).append(l)
        done = 0
        for (clause, tags), ls in sorted(groups.items(), key=lambda g: (len(g[0][1].split("+")), g[0])):
            kv = core.parse_kv(ls[0])
            cno = int(kv["case"])
            case = cases[cno - 1] if 0 < cno <= len(cases) else []
            final_tags = self._tags(ls[0])
            shown = case
            minimised = False
            if case and case[0].startswith("C M ") and done < self.max_groups:
                done += 1
                idx = int(kv["line"]) - starts[cno - 1]
                shown, hit = self._shrink_m(harness, driver, case, idx, "SPECFAIL", "clause=" + clause)
                if hit:
                    final_tags = self._tags(hit[0])
                    minimised = True
            elif case and not case[0].startswith("C M "):
                minimised = True   # an S case is one line, a K failure is reported with its W line
                shown = [case[0]] + [c for c in case[1:] if c.startswith("K ") and int(kv["line"]) - starts[cno - 1] == case.index(c)]
            cls = self.classify(clause, final_tags)
            res.spec_failures.append(runner.Finding(
                "spec", f"spec:C14:{clause}:{cls}", shown,
                {"driver": ls[0], "occurrences": len(ls), "origin": origin, "minimised": minimised},
                {"clause": clause, "tags": sorted(final_tags), "class": cls}))
        # disagreements between model and implementation
        seen = set()
        for l in mism:
            kv = core.parse_kv(l)
            if kv.get("op") in seen or len(seen) >= 3:
                continue
            seen.add(kv.get("op"))
            cno = int(kv["case"])
            case = cases[cno - 1] if 0 < cno <= len(cases) else []
            shown = case
            if case and case[0].startswith("C M "):
                idx = int(kv["line"]) - starts[cno - 1]
                shown, _ = self._shrink_m(harness, driver, case, idx, "MISMATCH")
            res.corr_failures.append(runner.Finding("corr", "observation:" + kv.get("op", "?"), shown[:40], {"driver": l, "origin": origin}))

    @staticmethod
    def classify(clause, tags):
        """Root cause of a failing witness from the driver's descriptive tags ('other' = not a recorded defect)."""
        if clause == "restoreIdentity":
            if {"toprestore", "restoreunmodified"} <= tags and tags <= {"toprestore", "restoreunmodified", "absent", "above", "again"}:
                return "restore-unmodified-toplevel"
            if "dotkey" in tags and tags <= {"olddict", "dotkey"}:
                return "dotted-key-flattened"
            if "newkeys" in tags and tags <= {"olddict", "oldemptydict", "newkeys"}:
                return "absent-recorded-as-null"   # {} -> {k: v}: the new keys are recorded as Empty
            if "oldemptydict" in tags and tags <= {"olddict", "oldemptydict", "again"}:
                return "old-value-empty-dictionary"
            if tags & _A and tags <= _A | {"olddict"}:
                return "absent-recorded-as-null"
            if "below" in tags and tags <= _B | {"olddict", "above"}:
                return "modified-below-modified"
            if {"again", "olddict"} <= tags and tags <= _B | {"olddict", "above"}:
                return "modified-below-modified"
            # both root causes in one minimal witness: an absent key below (or at) an already modified path
            # (also with an incidental restore of an unmodified path that made the key absent)
            if tags & _A and tags <= _A | _B | {"olddict", "above", "restoreunmodified", "toprestore"}:
                return "absent-recorded-as-null"
            # re-modification at/below a modified path with incidental features of the intermediate dictionary
            if ("below" in tags or {"again", "olddict"} <= tags) and \
                    tags <= _A | _B | {"olddict", "above", "oldemptydict", "dotkey", "restoreunmodified"}:
                return "modified-below-modified"
            return "other"
        if clause == "stateRoundtrip":
            if tags == {"typekey"}:
                return "type-key-in-state"
            if tags == {"config"}:
                return "modattr-dump"
            return "other"
        return "other"

    def matches_known(self, entry, finding):
        d = finding.classifier_data
        if not d or d.get("class") == "other":
            return False
        if entry.get("classifier") != "c14_" + d["class"].replace("-", "_"):
            return False
        if d["class"] == "modattr-dump":
            # narrow: the single S line must carry two modifications of one path, the first installing a dictionary
            try:
                spec = json.loads(_unhex(runner.strip_obs(finding.case_lines[0]).split()[1]))
                mods = spec.get("mods") or []
                return any(a[0] == b[0] and isinstance(a[1], dict) and a[1] for i, a in enumerate(mods) for b in mods[i + 1:])
            except Exception:
                return False
        return True

    # ---- the run

    def correspondence(self, tier, seed, harness, driver):
        res = runner.Result()
        total = {}
        self.max_groups = 600 if tier == "thorough" else 150
        for cf in sorted(glob.glob(os.path.join(core.ROOT, "corpus", "C14", "*.ops"))):
            save = self.work("corpus.out")
            lines = self._run([harness, "ops", cf], driver, save)
            self._collect(res, lines, save, harness, driver, "corpus:" + os.path.basename(cf))
            for l in lines:
                if l.startswith("STATS"):
                    for k, v in core.parse_kv(l).items():
                        if v.isdigit():
                            total["corpus_" + k] = total.get("corpus_" + k, 0) + int(v)
        save = self.work("gen.out")
        lines = self._run([harness, "gen", "--seed", str(seed), "--tier", tier], driver, save)
        stats = {}
        for l in lines:
            if l.startswith("STATS"):
                stats = {k: int(v) for k, v in core.parse_kv(l).items() if v.lstrip("-").isdigit()}
        if not stats:
            raise core.TieBroken("driver:c14:no-stats", "\n".join(lines[-20:]))
        stats.update(total)
        res.stats = stats
        res.evaluations = stats.get("steps", 0)
        res.distinct_nontrivial = stats.get("nontrivial", 0)
        res.traces_validated = stats.get("cases", 0)
        res.exhaustive = False
        res.rule = self.rule
        cs = _cases(save)
        pick = [c for c in cs if c[0].startswith("W ")][:1] + [c for c in cs if c[0].startswith("C M ")][1:3] + [c for c in cs if c[0].startswith("S ")][:1]
        res.samples = [l[:400] for c in pick for l in c[:6]]
        res.extra = {"faults_fired_per_syscall": {k[6:]: v for k, v in stats.items() if k.startswith("fault_")}}
        self._collect(res, lines, save, harness, driver, "generated")
        return res

    def replay(self, path, harness, driver):
        data = json.load(open(path))
        lines = [l for l in data.get("case", []) if l.strip()]
        f = self.work("replay.ops")
        with open(f, "w") as fh:
            fh.write("\n".join(runner.strip_obs(l) for l in lines) + "\n")
        out = self._run([harness, "ops", f], driver, self.work("replay.out"))
        print(open(self.work("replay.out")).read())
        print("\n".join(out))
        return not any(l.startswith(("SPECFAIL", "MISMATCH", "BADLINE")) for l in out)


CHECK = C14()

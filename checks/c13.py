"""C13 — cluster messages are applied only from endpoints whose zone is entitled to them.  DESIGN.md §2 C13."""
import importlib.util
import json
import os
import subprocess

from vlib import core, runner
from .base import Check

UPDATE_METHODS = {"event::CheckResult", "event::SetNextCheck", "event::SetLastCheckStarted", "event::SetNextNotification",
                  "event::SetForceNextCheck", "event::SetForceNextNotification", "event::SetAcknowledgement",
                  "event::ClearAcknowledgement", "event::UpdateExecutions", "event::ExecutedCommand",
                  "event::SetRemovalInfo"}


def _load_gen(name="c13_apifunctions"):
    path = os.path.join(core.ROOT, "gen", name + ".py")
    spec = importlib.util.spec_from_file_location(name, path)
    mod = importlib.util.module_from_spec(spec)
    spec.loader.exec_module(mod)
    return mod


class Forest:
    def __init__(self, line):
        w = line.split()
        self.local = int(w[1])
        self.parent = [None if p in "-g" else int(p) for p in w[3:3 + int(w[2])]]
        self.glob = [p == "g" for p in w[3:3 + int(w[2])]]

    def below(self, a, z):
        steps = 0
        while a is not None and steps < 64:
            if a == z:
                return True
            a = self.parent[a]
            steps += 1
        return False

    def within(self, tok, s):
        """object with zone token `tok` (`-` = unset = local zone) lies in zone s or below, or in a global zone"""
        oz = self.local if tok == "-" else int(tok)
        return self.glob[oz] or self.below(oz, s)


def parse_case(lines):
    """[F line, M line] -> dict, or None"""
    f = next((l for l in lines if l.startswith("F ")), None)
    m = next((l for l in lines if l.startswith("M ")), None)
    if not f or not m:
        return None
    w = runner.strip_obs(m).split()
    if len(w) != 11:
        return None
    return {"forest": Forest(f), "method": w[1], "sender": w[2], "origin": w[3], "objzone": w[4], "execzone": w[5],
            "cmdep": w[6], "acfg": w[7], "acmd": w[8], "exists": w[9], "var": w[10]}


def entitled_for_zone(c, z):
    """Would a sender of zone z be entitled to this update-class message?  (Python twin of `entitledZoneB` for the
    classes stateUpdate / checkResult / execResult, lean/IcingaModel/C13/Spec.lean.)"""
    f = c["forest"]
    if c["method"] == "event::ExecutedCommand":
        return c["exists"] == "1" and c["execzone"] != "-" and f.below(int(c["execzone"]), z)
    if f.within(c["objzone"], z):
        return True
    return c["method"] == "event::CheckResult" and c["cmdep"] == "1"


# Narrow classifiers of the recorded defects.  Each one is the negation of the extra hypothesis of the
# corresponding `…_partial` theorem in lean/IcingaProofs/C13.lean.
def c13_own_zone_sender_not_checked(clause, c):
    """F-C13a = the class `inFC13a` of Spec.lean: update-class method, the sender is the receiver's own-zone peer, and
    the zone the code judges the message by — the message's own `originZone` field — is absent / names no zone
    (FromZone null, every guard skipped) or names a zone that IS entitled (the peer merely claims it).  An own-zone
    sender whose claimed zone is NOT entitled is refused today (theorem own_zone_claim_not_entitled_is_refused):
    a spec failure there is a new violation, not F-C13a."""
    if not (clause == "applied_only_if_entitled" and c["method"] in UPDATE_METHODS
            and c["sender"] == "a%d" % c["forest"].local):
        return False
    if c["origin"] in ("-", "?"):
        return True
    try:
        z = int(c["origin"])
    except ValueError:
        return False
    if z < 0 or z >= len(c["forest"].parent):
        return False
    return entitled_for_zone(c, z)


# F-C13b (pki::UpdateCertificate without endpoint, /repo ba4edd4) and F-C13c (event::SetRemovalInfo ignoring the
# object's zone, /repo cc1e22f) are repaired: they have no classifier any more, a recurrence is a plain VIOLATION.

CLASSIFIERS = {f.__name__: f for f in (c13_own_zone_sender_not_checked,)}

# Behaviour-preserving rewrites the check must NOT alarm on.  Each was built as mutated object files in scratch, linked
# into a scratch harness and run through the full flow of this check (translator on the mutated tree, audit,
# correspondence, spec, verdict): exit 0, no VIOLATION.  Patches (documentation, not applied by the check):
# corpus/C13/negative_controls/<name>.diff
NEGATIVE_CONTROLS = [
    ("nc1_helper_reorder_spelling", "clusterevents.cpp: CanAccessObject guard of 10 handlers extracted into a static helper; CheckResult guard via a "
     "named bool; zone-internal guard as if-init + ternary; parameter read moved before the guard; ExecuteCommand sender test with renamed "
     "locals and De Morgan; zones visited in reverse order in the forwarding loop; SetRemovalInfo guard as flag + nested ifs"),
    ("nc2_message_texts", "every 'Discarding …'/'Unauthorized access'/'Invalid endpoint origin'/'does not accept commands|config'/'does not exist' "
     "text reworded in clusterevents.cpp, clusterevents-check.cpp, apilistener-configsync.cpp, jsonrpcconnection-pki.cpp (incl. the output of the "
     "UNKNOWN reply check result) — the harness never reads log or reply text"),
    ("nc3_zone_representation_origin", "zone.cpp: IsChildOf answers from the cached m_AllParents vector instead of walking GetParent(), "
     "CanAccessObject as one expression; jsonrpcconnection.cpp: FromZone computed with a ternary and renamed locals, extra message counter"),
    ("nc4_registrations_moved_renamed", "REGISTER_APIFUNCTION(Heartbeat…) moved to jsonrpcconnection.cpp (old place under #if 0), SetLogPosition "
     "registration spread over five lines with odd spacing, comments and a string literal that mention REGISTER_APIFUNCTION(…), "
     "UpdateObject/DeleteObject registrations swapped with a trailing comment, static pki handlers renamed"),
    ("nc5_config_cert_guard_spelling", "config::UpdateObject tests accept_config before the zone, config::DeleteObject zone test as positive if/else, "
     "config::Update and pki::UpdateCertificate guards split into nested ifs / a refuse flag"),
    ("nc7_zone_level_guard_spelling", "zone.cpp Zone::OnAllConfigLoaded: counter renamed and pre-incremented, bound moved into a file-level constant "
     "(33, compared with `<=` and operands swapped), a comment that quotes the old comparison — gen/c13_zonelevels.py still reads 32; run "
     "through tools/mutate.sh: exit 0, no VIOLATION"),
    ("nc6_execute_from_queue", "clusterevents-check.cpp: source endpoint via ternary, guard as !(a && b) with a named bool, accept_commands test "
     "with operands swapped"),
]


class C13(Check):
    prop = "C13"
    required_theorems = ["table_covers_registered_methods", "all_methods_listed", "ofName_name",
                         "accept_implies_entitled_zone_internal", "accept_implies_entitled_config",
                         "accept_implies_entitled_command", "forwarded_only_downwards", "accept_implies_entitled_session",
                         "accept_implies_entitled_cert_update", "accept_implies_entitled_update_from_other_zone",
                         "removal_info_only_from_own_zone_or_above",
                         "accept_implies_entitled_partial", "accept_implies_entitled_counterexample",
                         "accept_implies_entitled_counterexample_claimed_origin", "own_zone_sender_is_not_checked",
                         "anonymous_only_certificate", "refused_is_noop", "heartbeat_is_noop", "entitledB_sound",
                         "accepted_is_entitledB_or_fc13a", "accept_implies_entitled_or_claimed",
                         "own_zone_claim_not_entitled_is_refused", "specStep_none_of", "model_step_satisfies_spec",
                         "model_trace_satisfies_spec_partial", "model_trace_counterexample", "refused_observes_nothing",
                         "update_object_needs_accept_config", "delete_object_only_api_package",
                         "entitled_foreign_update_is_accepted",
                         "fuel_covers_source_level_limit", "isChildOf_iff_below_loaded",
                         "config_update_object_accept_iff_entitled", "config_delete_object_accept_iff_entitled",
                         "foreign_update_accept_iff_entitled", "sender_strictly_below_is_refused",
                         "model_step_failure_is_fc13a", "model_trace_failure_is_fc13a",
                         "entitledB_iff_entitled_loaded", "relayed_update_entitles_first_hop", "exForest_loaded",
                         "loadedB_sound", "driver_forests_are_loaded", "origin_claim_matters_only_for_own_zone_peer",
                         "model_origin_satisfies_spec"]
    technique = ("Lean 4 proof (decision logic stated outright over an arbitrary zone forest) about a hand-written decision table with one row "
                 "per registered JSON-RPC method (row set forced by a table regenerated from REGISTER_APIFUNCTION on every run); correspondence "
                 "by driving every registered ApiFunction through the real JsonRpcConnection::MessageHandler on an in-process cluster node "
                 "and diffing full before/after snapshots")
    level_text = ("Machine-checked theorems (Lean 4 kernel) over ALL zone forests, contexts and walk fuels. (1) Whole table, no hypothesis "
                  "(accept_implies_entitled_or_claimed): a message that gets past the guards of its handler comes from an authenticated, "
                  "configured endpoint whose zone is entitled to it, OR it has exactly the shape of known finding F-C13a (update class, sender in "
                  "the receiver's own zone, originZone absent or naming a zone that is itself entitled); an own-zone sender naming a zone that is "
                  "NOT entitled is refused (own_zone_claim_not_entitled_is_refused). Per class in full: zone-internal bookkeeping (8 methods), "
                  "config::Update/UpdateObject/DeleteObject incl. accept_config in every branch (create / modify existing / delete, only API "
                  "objects deleted), event::ExecuteCommand incl. accept_commands, Hello/SetLogPosition/Heartbeat, pki::UpdateCertificate, and "
                  "'anonymous connections get nothing but the certificate request past the guards'. (2) Whole trace "
                  "(model_trace_satisfies_spec_partial): for every forest and every sequence of messages with arbitrary effects, the SAME "
                  "executable specification predicate that the driver evaluates on the implementation's observations finds no violation in the "
                  "model's observations (nothing observable for a message that does not apply; connection bookkeeping confined to the sender's own "
                  "Endpoint object), provided no message lies in the class F-C13a; kernel-checked counterexamples for the excluded class on "
                  "message and trace level, reproduced on the real code by the harness (F-C13b/c were found by this check and are repaired). "
                  "(2b) Whole trace WITHOUT proviso (model_trace_failure_is_fc13a): whatever the predicate reports on ANY model trace is the clause "
                  "applied_only_if_entitled at an accepted message of the class F-C13a — no other clause, no other class. (3) Completeness, over "
                  "all forests a configuration can load (every zone at most 32 proper ancestors; the bound is regenerated from "
                  "Zone::OnAllConfigLoaded on every run and fuel_covers_source_level_limit ties the model's walk to it): the modelled "
                  "Zone::IsChildOf IS 'the zone or below it' (isChildOf_iff_below_loaded); config::UpdateObject / DeleteObject and state updates "
                  "from another zone get past their guards IF AND ONLY IF the statement entitles the sender "
                  "(config_update_object_/config_delete_object_/foreign_update_accept_iff_entitled); configuration, commands, certificate and "
                  "removal info are never applied for a sender strictly below the receiver (sender_strictly_below_is_refused: 'above' and "
                  "'below' exclude each other); the executable predicate of the driver is EQUIVALENT to the proposition "
                  "(entitledB_iff_entitled_loaded). (4) Two hops (relayed_update_entitles_first_hop): an update relayed by an own-zone peer that "
                  "fills originZone honestly (SyncRelayMessage) is accepted only if the first-hop sender's zone is entitled; the originZone claim has "
                  "no influence on any method for any sender that is not an authenticated own-zone peer "
                  "(origin_claim_matters_only_for_own_zone_peer). The hypothesis of (3) is checked by the driver on every forest the harness "
                  "registers (loadedB; loadedB_sound, driver_forests_are_loaded). "
                  "The decision table is tied to the code by invoking all 28 registered methods through the real MessageHandler for every "
                  "sender/origin/object-zone relation in a 7-zone forest of depth 3 from three receiver positions plus seeded random forests, "
                  "authenticated/unverified/unconfigured/anonymous senders, accept_config/accept_commands on/off, command endpoint = none / sender / "
                  "sender's zone mate / receiver, every branch of config::UpdateObject (6 variants), config::DeleteObject (3), config::Update (empty, "
                  "real files without/with checksums, staged validation succeeding/failing through a spawned validator process), "
                  "event::ExecuteCommand (legacy check, API execution with source/deadline, named local endpoint, forwarding incl. both "
                  "error-notice branches), comparing 'anything changed' (all objects serialised, data directory, outgoing queues, "
                  "command/notification counters), 'anything but the sender's Endpoint object changed' and the computed FromZone with the model; "
                  "the specification (applied_only_if_entitled, anonymous_only_certificate, session_only_own_endpoint on the "
                  "before/after observation; endpoint_only_if_authenticated, judged_by_senders_zone on the MessageOrigin a probe ApiFunction is handed "
                  "by the real MessageHandler for the same connection and originZone — model_origin_satisfies_spec) is evaluated on the "
                  "implementation's observations")
    level_note = ("Trusted: Lean kernel (+ propext, Classical.choice, Quot.sound), translators gen/c13_apifunctions.py and gen/c13_zonelevels.py, harness/driver, the sampled "
                  "correspondence. Certificate verification is an input bit. Modelled as predicates, not as state: what an accepted update does "
                  "to the object is an arbitrary effect (any Obs) in the whole-trace theorem; config::UpdateObject's create/modify/no-op "
                  "decision, DeleteObject's package test and the two error-notice branches of the ExecuteCommand forwarding path are in the "
                  "model (the visibility of the notice assumes the harness's topology: one peer in the own zone, everybody connected). Not "
                  "modelled: parameter validation inside handlers, replies to the sender (counted, not compared), in-memory state that is not a "
                  "serialised attribute; the own-certificate branch of pki::UpdateCertificate is exercised by two corpus cases only. The class "
                  "`session` (Hello, SetLogPosition, Heartbeat: any authenticated configured endpoint) is not named by the property's sentence; "
                  "the specification confines it to the sender's own Endpoint object.")
    trusted_base = [
        "translator gen/c13_apifunctions.py (regex over REGISTER_APIFUNCTION in /repo/lib; a lost anchor is reported as a broken tie)",
        "translator gen/c13_zonelevels.py (the one counter-versus-integer comparison guarding the throw in Zone::OnAllConfigLoaded, "
        "lib/remote/zone.cpp, in any spelling; a lost anchor or a bound >= the model's fuel 40 is reported as a broken tie); that this "
        "guard really rejects deeper or cyclic zone chains (hypothesis `Loaded` of the completeness theorems) is read, not verified",
        "modelled, not verified: TLS certificate verification (`authenticated` is an input bit); every configured endpoint belongs to a zone "
        "(Endpoint::OnAllConfigLoaded enforces it); zone chains of loaded configurations have at most 33 levels (Zone::OnAllConfigLoaded), "
        "the model's IsChildOf walks with fuel 40 (the soundness theorems hold for every fuel; the completeness theorems for fuel > the "
        "regenerated bound); honest relaying by own-zone peers is a hypothesis of relayed_update_entitles_first_hop only",
        "the decision table covers the guards in front of each handler's effect and the effect's own no-op conditions (config::UpdateObject "
        "version/exists/config text, config::DeleteObject package, ExecuteCommand forwarding error notices), for well-formed parameters; the "
        "effect itself is an arbitrary observation; both branches of pki::UpdateCertificate sit behind the one modelled guard",
        "config::Update with real files: the staged configuration is 'validated' by /bin/true resp. /bin/false standing in for "
        "`icinga2 daemon --validate` (ApiListener::TryActivateZonesStage runs argv[0]); the copy to production and the failure record are real",
    ]
    assumptions = [
        "objects are created by the harness directly (new Host/Service/Notification/Comment + Register/OnAllConfigLoaded/Activate), "
        "not through the config compiler; Host and Service objects cannot be put into a global zone (the code refuses it), so the "
        "'global' relation is exercised with notifications and comments",
        "JsonRpcConnection objects are constructed but never started (no socket I/O); messages are handed to the private "
        "JsonRpcConnection::MessageHandler as decoded dictionaries without `ts` and `id`",
        "'applied' = any ConfigObject's serialisation (FAEphemeral|FAConfig|FAState) differs, or the data directory listing/content "
        "differs (replay log excluded), or a message was queued to a connection other than the sender's, or the harness's check command ran / "
        "a notification signal fired; a message queued back to the sender is a reply, not an application; 'foreign' = a changed object "
        "other than the Endpoint object named by the sender's identity",
    ]

    # -- translator ----------------------------------------------------------------------------
    def generate(self):
        gen = _load_gen()
        out = os.path.join(core.LEAN, "IcingaProofs", "Gen", "ApiFunctions.lean")
        try:
            gen.generate(core.REPO, out)
        except gen.AnchorLost as e:
            raise core.TieBroken("translator:C13:apifunctions", str(e))
        if not os.path.exists(out):
            raise core.TieBroken("translator:C13:apifunctions", "generated file missing")
        gen2 = _load_gen("c13_zonelevels")
        out2 = os.path.join(core.LEAN, "IcingaProofs", "Gen", "ZoneLevels.lean")
        try:
            gen2.generate(core.REPO, out2)
        except gen2.Lost as e:
            raise core.TieBroken("translator:C13:zonelevels", str(e))
        if not os.path.exists(out2):
            raise core.TieBroken("translator:C13:zonelevels", "generated file missing")

    # -- running ---------------------------------------------------------------------------------
    def _harness(self, args, save, append=False):
        os.makedirs(os.path.dirname(save), exist_ok=True)
        with open(save, "a" if append else "w") as f:
            p = subprocess.run(args + ["--work", os.path.join(core.WORK, "c13", "nodes")], stdout=f, stderr=subprocess.PIPE, timeout=3600)
        if p.returncode != 0:
            raise core.TieBroken("harness:c13:run", f"rc={p.returncode}\n{p.stderr.decode(errors='replace')[-3000:]}")

    def _driver(self, driver, save):
        with open(save) as f:
            p = subprocess.run([driver], stdin=f, stdout=subprocess.PIPE, stderr=subprocess.PIPE, text=True, errors="replace", timeout=3600)
        if p.returncode != 0:
            raise core.TieBroken("driver:c13:run", (p.stdout + p.stderr)[-3000:])
        return p.stdout.splitlines()

    def _replay_lines(self, harness, driver, lines, tag):
        f = self.work(tag + ".ops")
        with open(f, "w") as fh:
            fh.write("\n".join(runner.strip_obs(l) for l in lines) + "\n")
        save = self.work(tag + ".out")
        self._harness([harness, "ops", f], save)
        return self._driver(driver, save), open(save).read().splitlines()

    @staticmethod
    def _case_at(all_lines, line_no):
        """(F line, M line) for the 1-based line number of an M line."""
        m = all_lines[line_no - 1]
        k = line_no - 1
        while k >= 0 and not all_lines[k].startswith("F "):
            k -= 1
        return [all_lines[k], m]

    def correspondence(self, tier, seed, harness, driver):
        res = runner.Result()
        save = self.work("gen.out")
        corpus_dir = os.path.join(core.ROOT, "corpus", "C13")
        corpus = sorted(os.path.join(corpus_dir, f) for f in os.listdir(corpus_dir) if f.endswith(".ops")) if os.path.isdir(corpus_dir) else []
        open(save, "w").close()
        if corpus:
            merged = self.work("corpus.ops")
            with open(merged, "w") as out:
                for c in corpus:
                    out.write(open(c).read().rstrip("\n") + "\n")
            self._harness([harness, "ops", merged], save, append=True)
        n_corpus = sum(1 for l in open(save) if l.startswith("M "))
        self._harness([harness, "gen", "--seed", str(seed), "--tier", tier], save, append=True)
        lines = self._driver(driver, save)
        all_lines = open(save).read().splitlines()
        stats = {}
        for l in lines:
            if l.startswith("STATS"):
                stats = {k: int(v) for k, v in core.parse_kv(l).items()}
        if not stats:
            raise core.TieBroken("driver:c13:no-stats", "\n".join(lines[-20:]))
        res.stats = stats
        res.evaluations = stats["cases"]
        res.distinct_nontrivial = stats["nontrivial"]
        res.traces_validated = stats["cases"]
        res.exhaustive = False
        res.extra = {"corpus_cases": n_corpus, "methods_exercised": stats.get("methods", 0)}
        res.rule = ("one case = one raw JSON-RPC message handed to the real JsonRpcConnection::MessageHandler of a receiver node. Fixed forest "
                    "master-sat-agent (+ sibling satellite, sibling agent, unrelated root, global zone) from the root, middle and leaf receiver "
                    "position (thorough: also sibling and unrelated root): for each of the 28 registered methods the complete grid "
                    "sender (every zone's endpoint incl. own-zone peer, unverified certificate, unconfigured identity, anonymous) x originZone "
                    "(absent, unknown, every zone for own-zone senders; absent/local for the others) x object zone (every zone, unset) resp. "
                    "execution-endpoint zone / ExecuteCommand target node in every zone (forwarding, incl. the two error-notice branches) / accept_config / "
                    "accept_commands / command endpoint (none, sender, sender's zone mate, receiver) / every branch variant of config::UpdateObject, "
                    "config::DeleteObject, config::Update and local ExecuteCommand, the remaining flags rotating; plus "
                    "seeded random forests of depth <= 3 (3 quick / 24 thorough) sampled from the same grid, plus a malformed stream "
                    "(named objects do not exist); corpus cases first. evaluations = messages handled; a case is non-trivial when the "
                    "connection has an endpoint, i.e. the zone guards (not the anonymous test) decided; distinct by (forest, operation) text "
                    "(counted by the Lean driver)")
        ms = [l for l in all_lines if l.startswith("M ")]
        res.samples = [all_lines[0]] + ms[:3] + ["..."] + ms[len(ms) // 2: len(ms) // 2 + 3] + ["..."] + ms[-2:]
        bad = [l for l in lines if l.startswith("BADLINE")]
        if bad:
            res.corr_failures.append(runner.Finding("corr", "protocol", bad[:5]))

        known = [k for k in core.known_findings(self.prop) if k.get("status") == "known"]
        groups = {}
        for l in lines:
            if not l.startswith("SPECFAIL"):
                continue
            kv = core.parse_kv(l)
            case = self._case_at(all_lines, int(kv["line"]))
            c = parse_case(case)
            tag = "new"
            for k in known:
                fn = CLASSIFIERS.get(k.get("classifier"))
                # the driver's own verdict (Lean `inFC13a`) must agree with the Python classifier
                if fn and c and fn(kv["clause"], c) and kv.get("fc13a", "1") == "1":
                    tag = k["id"]
                    break
            key = (kv["clause"], kv["method"], tag)
            groups.setdefault(key, []).append((case, l))
        res.extra["spec_failure_groups"] = {"/".join(k): len(v) for k, v in sorted(groups.items())}
        n_new = 0
        for key, items in sorted(groups.items()):
            if key[2] == "new":
                n_new += 1
                if n_new > 6:
                    continue
            case, l = items[0]
            # the witness is one message: confirm it in a fresh process of its own
            out, shown = self._replay_lines(harness, driver, case, "shrink")
            isolated = any(o.startswith("SPECFAIL") and ("clause=" + key[0]) in o for o in out)
            res.spec_failures.append(runner.Finding(
                "spec", f"spec:C13:{key[0]}:{key[1]}:{key[2]}", shown if isolated else case,
                {"driver": l, "reproduced_in_isolation": isolated, "occurrences": len(items)},
                {"clause": key[0]}))
        seen = set()
        for l in lines:
            if l.startswith("MISMATCH") and len(seen) < 3:
                kv = core.parse_kv(l)
                key = (kv.get("kind"), kv.get("method", ""))
                if key in seen:
                    continue
                seen.add(key)
                case = self._case_at(all_lines, int(kv["line"]))
                out, shown = self._replay_lines(harness, driver, case, "shrink")
                res.corr_failures.append(runner.Finding("corr", f"{key[0]}:{key[1]}", shown,
                                                        {"driver": l, "isolated": [o for o in out if o.startswith("MISMATCH")]}))
        return res

    def matches_known(self, entry, finding):
        if finding.kind != "spec":
            return False
        fn = CLASSIFIERS.get(entry.get("classifier"))
        c = parse_case(finding.case_lines)
        clause = finding.classifier_data.get("clause") or finding.what.split(":")[2]
        return bool(fn and c and fn(clause, c))

    def replay(self, path, harness, driver):
        data = json.load(open(path))
        lines = [l for l in data.get("case", []) if l[:2] in ("F ", "M ")]
        out, shown = self._replay_lines(harness, driver, lines, "replay")
        print("\n".join(shown))
        print("\n".join(out))
        return not any(l.startswith(("SPECFAIL", "MISMATCH", "BADLINE")) for l in out)


CHECK = C13()

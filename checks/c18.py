"""C18 — API authorization: permission and its filter are enforced on every access path.  DESIGN.md §2 C18."""
import glob
import importlib.util
import json
import os
import re

from vlib import core, runner
from .base import Check


class C18(Check):
    prop = "C18"
    required_theorems = ["wildcard_match_spec", "permission_match_spec", "targets_subset_allowed",
                         "no_permission_rejects_first", "forbidden_by_name_is_error",
                         "forbidden_single_name_is_denied", "joined_access_subset_allowed", "handler_targets_subset_allowed",
                         "result_independent_of_visit_order", "handler_permission_table_matches_source",
                         "model_query_meets_spec", "model_access_meets_spec", "model_grant_meets_spec",
                         "converse_fails_by_overrestriction",
                         "unrepaired_targets_subset_allowed_of_isoVisit", "unrepaired_shared_frame_returns_forbidden",
                         "unrepaired_shared_frame_depends_on_visit_order",
                         "joined_objects_allowed", "authenticate_header_only_with_password", "authenticate_cn_only_with_cn",
                         "model_auth_meets_spec",
                         "action_targets_subset_allowed", "lookup_by_name_allowed", "model_lookup_meets_spec",
                         "modify_changes_subset_allowed", "bare_check_grants_only_with_match",
                         "create_grant_partial", "create_ignores_filter_counterexample",
                         "entry_point_permissions_match_source",
                         "raw_mask_match_spec", "permission_pattern_spec", "has_permission_iff_pattern_denotes",
                         "every_url_handler_checks_its_permission", "model_request_meets_spec", "model_trace_meets_spec",
                         "delete_without_cascade_gone_allowed", "secondary_objects_partial", "secondary_objects_counterexample",
                         "connection_user_only_with_verified_cn"]
    technique = ("Lean 4 proof (decision logic stated outright: every object returned on every addressing path satisfies Allowed; "
                 "rejection before any provider call; forbidden name => error; matcher = declarative wildcard language) over a hand-written "
                 "model of FilterUtility::HasPermission/GetFilterTargets; correspondence by differential execution of the real functions "
                 "with real ApiUser/Host/Service objects, compiled DSL permission filters and an instrumented TargetProvider")
    level_text = ("Machine-checked theorems (Lean 4 kernel) that for every permission list (plain and {permission, filter} entries, wildcards, "
                  "several matching entries), every non-empty required permission, every query dictionary (single names, plural lists, type, "
                  "filter, any mixture), every inventory, both provider kinds and every answer of the name-index recogniser, the model's outcome "
                  "satisfies the executable specification: returned objects are allowed and registered, no matching entry => permission error "
                  "with an empty provider-call log, a forbidden existing object addressed by name => error; the same for the targets of every "
                  "action (any registered type list), for the objects a modify request CHANGES (subset of the allowed objects, none without a "
                  "matching entry), for the by-name lookup of execute-command (what it hands out is the registered object of that type and name "
                  "and allowed under objects/query/<Type>), for bare permission checks (200 only with a matching entry), joined objects and "
                  "authentication. Object creation: proved for users whose entries matching objects/create/<Type> carry no filter "
                  "(create_grant_partial); with a filter the code as it is violates the statement (create_ignores_filter_counterexample, finding "
                  "F-C18b). Round 4: whole-trace theorem model_trace_meets_spec - for every initial user and inventory and every sequence of "
                  "requests of every entry point (GetFilterTargets, object handlers, actions of any type list, objects changed by modify, "
                  "execute-command's lookup, joins, per-object decisions, bare checks) interleaved with arbitrary changes of the user's "
                  "permission list and of the registry, every answer satisfies the specification with respect to the user and inventory as "
                  "they are when the request arrives; the matcher is specified down to the RAW pattern (raw_mask_match_spec: escapes \\* and "
                  "\\?, a lone backslash, case) and HasPermission is characterised by it (has_permission_iff_pattern_denotes); "
                  "every_url_handler_checks_its_permission: in the table regenerated from /repo/lib on every run every Handle* method of every "
                  "class registered with REGISTER_URLHANDLER that handles a request itself contains a permission check (InfoHandler excepted), "
                  "none asks for the empty permission and each handler class asks for the permission the model assumes for it (also the handlers "
                  "the harness cannot drive: events, config stages/files, DELETE of config packages). Secondary objects: on inventories created "
                  "THROUGH THE API (ConfigObjectUtility::CreateObject) DELETE really deletes (with and without cascade) and the real "
                  "schedule-downtime callback runs with all_services; observed is which objects of the whole inventory are gone / have a "
                  "downtime. Proved: without cascade only allowed, registered objects go (delete_without_cascade_gone_allowed); with cascade / "
                  "all_services the statement holds exactly when the dependents of allowed objects are allowed (secondary_objects_partial) and "
                  "the code as it is violates it otherwise (secondary_objects_counterexample, finding F-C18c). The model is tied to the code by running the real FilterUtility::HasPermission (all pattern/text pairs up to length 3 "
                  "(4 thorough) over a 5-letter alphabet plus random permission-shaped pairs), GetFilterTargets (random users x inventories x "
                  "queries of every shape, each with the default and with a logging provider), HasPermission+EvaluateFilter per object, "
                  "ApiActions::GetSingleObjectByNameUsingPermissions, and whole requests through HttpHandler::ProcessRequest: object "
                  "query/modify (with a real attribute change, changed objects read off the whole inventory)/delete/create (PUT, the object is "
                  "really created in a scratch _api package), all 11 actions with types and the 3 without (registered callbacks wrapped: the "
                  "objects the handler invokes the action on are recorded), templates, variables, types, status, console, config packages "
                  "(GET and POST, package existence observed), debug; every observation is diffed and the same specification predicate is "
                  "evaluated on the implementation's own observations")
    level_note = ("Negative controls: see NEGATIVE_CONTROLS in checks/c18.py and corpus/C18/negative_controls/*.diff (refactoring, message "
                  "texts, iteration order / OR order / bookkeeping, guard spellings, translator inputs) - none is reported. Known finding F-C18b "
                  "(classifier create_ignores_filter: clause created_object_is_allowed, creation through entries that ALL carry a filter none of "
                  "which is true of the new object; a creation without a matching entry is a different clause and stays reported). Known finding F-C18c "
                  "(classifier secondary_unfiltered: clause secondary_objects_allowed, raised only for a forbidden DEPENDENT of a target - a "
                  "service of a target host deleted by cascade or given a downtime by all_services; a forbidden target or an object unrelated "
                  "to the targets is changed_objects_allowed and stays reported). Trusted: Lean "
                  "kernel (+ propext, Classical.choice, Quot.sound); the model's correspondence being sampled; harness/driver; the "
                  "harness's own evaluation of the generated filter expressions (truth tables are oracle inputs, also for the created object). "
                  "Not modelled: the DSL evaluating the filters, HTTP parsing, TLS/certificate verification and Base64 decoding (OpenSSL; the "
                  "decoder's answer is an oracle input of ApiUser::GetByAuthHeader's model; question Q-C18b: an empty certificate CN equals the "
                  "client_cn of every user that has none, GetByClientCN(\"\") returns such a user - whether a verified certificate can carry an "
                  "empty CN is outside the model), HttpServerConnection's message loop (that a connection's certificate user takes precedence over an Authorization header and that "
                  "a request without any user is answered 401: httpserverconnection.cpp:510-541; the CONSTRUCTOR's rule - a user only for a "
                  "verified certificate - is modelled, proved (connection_user_only_with_verified_cn) and driven, op V); the events handler (it streams "
                  "until the client disconnects), config stages/files and the DELETE/POST variants of config packages beyond package creation "
                  "(their permission strings are in the generated table); for templates/variables/types/status only grant/refusal is compared "
                  "(their targets are not config objects); for the actions other than reschedule-check/remove-acknowledgement the registered "
                  "callback is NOT executed (the handler's target list is observed, not the action's own effects): secondary objects of "
                  "schedule-downtime through child_options (all_services IS driven, round 4), remove-comment/-downtime on Comment/Downtime objects and the five lookups "
                  "inside ExecuteCommand are covered only through the shared lookup function, which is driven directly; cascade delete is driven for hosts with services "
                  "(round 4); dependents of other kinds (notifications, dependencies, downtimes, comments) are not in the inventory.")
    trusted_base = [
        "modelled, not verified: FilterUtility::HasPermission/CheckPermission/GetFilterTargets and EvaluateFilter's null-filter rule; "
        "permission and user filters are abstract predicates whose truth tables are computed by the harness independently of FilterUtility; "
        "what the C16 name-index recogniser accepts is an oracle input (ApplyRule::GetTargetHosts/GetTargetServices called by the harness)",
        "modelled, not verified (round 3): ActionsHandler's use of GetFilterTargets with the action's registered types, ModifyObjectHandler "
        "applying attributes to exactly the returned objects, ApiActions::GetSingleObjectByNameUsingPermissions, CreateObjectHandler's bare "
        "CheckPermission, the bare checks of console/config/debug/typeless actions; the harness replaces the registered ApiAction callbacks "
        "by recording wrappers (ApiAction::Register) and reaches the private lookup function through explicit template instantiation",
        "translator gen/c18_permissions.py (regular expressions + brace matching over /repo/lib, literals and comments blanked): finds the "
        "REGISTER_URLHANDLER classes, their Handle* method bodies (out-of-class and in-class definitions) and the permission expressions "
        "checked inside; a check reached only through a helper function outside the Handle* methods is not seen (the theorem then fails: "
        "alarm, not silence); the ORDER of check and first side effect inside a body is not analysed",
        "third-party/mmatch match() is modelled by its input/output relation (recursive matcher proved equal to the declarative wildcard "
        "language), tied to the C function by exhaustive small and random permission-shaped pattern/text pairs through HasPermission",
    ]
    assumptions = [
        "evaluating a permission filter on an object depends on that object only - the model's filters are functions Obj -> Bool, while the "
        "code evaluates them in one ScriptFrame shared by all objects of a request (filterutility.cpp:217-218); the harness computes the "
        "oracle truth tables object by object with its own evaluator, and the clauses targets_subset_allowed and "
        "result_independent_of_visit_order on the implementation's results (plural lists in every permutation, shuffled registration "
        "order, nullable joins command_endpoint/check_period in the filters) are what would expose a dependence on the visit order",
        "the request requires a non-empty permission (an empty required permission is granted by filterutility.cpp:149-150; no handler uses one)",
        "permission strings, patterns and object names are ASCII (String::ToLower/tolower in the C locale)",
        "F-C18a (fixed by bce4be0: the permission frame gets an empty namespace per object): permission filters may read names bound by "
        "another object kind (`service` on hosts) and may raise errors; the model of the code evaluates them per object, the variant "
        "before the repair is kept as filterTargetsUnrepaired with kernel-checked statements about it; the witnesses are replayed on the "
        "implementation on every run as passing regression cases (corpus/C18/seeds.ops), and the generator keeps producing requests of "
        "that shape (service named, hosts enumerated, permission filter reading `service`)",
        "for Host and Service the only name of the permission frame that a later visit does not rebind is `service` (same navigation "
        "fields otherwise), so the frame is modelled by the binding of `service`; other object kinds (Comment, Downtime, ...) are not in the inventory",
        "the query dictionary is non-null and `hosts`/`services` hold arrays (what HttpUtility::FetchRequestParameters produces)",
    ]

    CASES = {"quick": 20000, "thorough": 200000}

    # Behaviour-preserving rewrites of the anchored code that the check must NOT report (patches kept as documentation in
    # corpus/C18/negative_controls/*.diff; each was built from a scratch copy of /repo and run through the full flow,
    # VERIF_REPO=<copy> VERIF_WORK=<scratch> ./check C18, at seeds 1 and 7: exit 0, no VIOLATION line).
    NEGATIVE_CONTROLS = [
        "nc1_refactor: GetFilterTargets with the permission check moved in front of the provider selection, renamed locals, the "
        "by-name lookup extracted into a helper, FilteredAddTarget renamed",
        "nc2_texts: every exception / log text of filterutility.cpp reworded, the result texts of the reschedule-check and "
        "remove-acknowledgement actions reworded (no quotes around the name), 'No objects found.' reworded",
        "nc3_representation: FindTargets enumerates in reverse, qd.Types visited in reverse, GetPluralName asked up front, the matching "
        "filters collected in a vector and OR-ed newest-first, an extra bookkeeping counter (alarmed first: join comparison at seed 2)",
        "nc4_guards: early returns instead of else branches and vice versa in EvaluateFilter, HasPermission, CheckPermission, "
        "GetFilterTargets; `count()==0` for `find()==end()`; nested ifs for the two type checks",
        "nc6_auth_joins: GetByAuthHeader as a chain of early returns that KEEPS the empty-password refusal, GetByClientCN with an index loop, "
        "the join verdict cache of ObjectQueryHandler keyed by (type name, object name) instead of the address",
        "nc5_translator: TypeQueryHandler moved into variablequeryhandler.cpp with its `user` parameter renamed, a new handler with a "
        "permission string of its own (`ping`), a permission assigned through a local String, changed spacing, a commented-out "
        "assignment, a call split over two lines",
    ]
    # What was loosened for them (the seeded changes of DESIGN.md §5 and the later ones are all still caught):
    #  * failures are compared as failures: no error kind, no message text (the harness no longer reads exception messages);
    #  * the objects an action acted on are read off the objects (next_check moved / acknowledgement cleared), not parsed from
    #    the action's result text;
    #  * the order of provider calls is not compared; only "no call at all before a rejection" is checked (spec clause);
    #  * a disagreement that disappears under some order of the user's entries is accepted when a permission filter of the case
    #    raises an error (the order in which the filters are OR-ed is the code's business) - counted as or_order_tolerated;
    #  * the permission table is a set of expressions (no file names, no order); the theorem asks for membership of the strings
    #    the model uses and for the absence of an empty permission, so new handlers and moved handlers do not matter;
    #  * the harness no longer reaches into Service::m_Host (private); services learn their host through OnAllConfigLoaded().

    def generate(self):
        """Regenerate IcingaProofs/Gen/Permissions.lean (the permission checks found under /repo/lib)."""
        path = os.path.join(core.ROOT, "gen", "c18_permissions.py")
        spec = importlib.util.spec_from_file_location("c18_permissions", path)
        mod = importlib.util.module_from_spec(spec)
        spec.loader.exec_module(mod)
        try:
            with core.Lock("lake"):
                self.permission_table = mod.generate(core.REPO, os.path.join(core.LEAN, "IcingaProofs", "Gen", "Permissions.lean"))
        except mod.Lost as e:
            raise core.TieBroken("translator:C18:anchor-lost", str(e))

    def _run(self, harness_cmd, driver, save):
        hrc, herr, drc, lines = runner.pipeline(harness_cmd, [driver], save)
        if hrc != 0:
            raise core.TieBroken("harness:c18:run", f"rc={hrc}\n{herr}")
        if drc != 0:
            raise core.TieBroken("driver:c18:run", "\n".join(lines[-20:]))
        return lines

    def _fails(self, harness, driver, lines, want_prefix, want_key=""):
        f = self.work("shrink.ops")
        with open(f, "w") as fh:
            fh.write("\n".join(runner.strip_obs(l) for l in lines) + "\n")
        try:
            out = self._run([harness, "ops", f], driver, self.work("shrink.out"))
        except core.TieBroken:
            return False
        return any(l.startswith(want_prefix) and want_key in l for l in out)

    @staticmethod
    def _line(path, n):
        with open(path) as f:
            for i, l in enumerate(f, 1):
                if i == n:
                    return l.rstrip("\n")
        return ""

    def _case_of(self, save, kv):
        """(header, ops) of the case a driver message refers to; M lines (before the first case) stand alone."""
        n, k = int(kv["line"]), int(kv["case"])
        line = self._line(save, n)
        if line[:2] in ("B ", "N ", "V "):
            # an authentication query stands with the user inventory (nearest preceding K line)
            hdr = ""
            with open(save) as f:
                for i, l in enumerate(f, 1):
                    if i >= n:
                        break
                    if l.startswith("K "):
                        hdr = l.rstrip("\n")
            return ([hdr] if hdr else []), [line]
        if line.startswith("M ") or k == 0:
            return [], [line]
        case = runner.extract_case(save, k)
        case = [l for l in case if not l.startswith("M ")]
        return case[:1], case[1:]

    def _collect(self, res, save, lines, harness, driver):
        bad = [l for l in lines if l.startswith("BADLINE")]
        if bad:
            shown = [self._line(save, int(core.parse_kv(b)["line"])) for b in bad[:5]]
            res.corr_failures.append(runner.Finding("corr", "protocol", shown, {"driver": bad[:5]}))
        for prefix, kind, dest, limit in (("SPECFAIL", "spec", res.spec_failures, 6), ("MISMATCH", "corr", res.corr_failures, 3)):
            seen = res.extra.setdefault("_seen_" + prefix, set())
            for l in lines:
                if not l.startswith(prefix) or len(seen) >= limit:
                    continue
                kv = core.parse_kv(l)
                key = kv.get("clause") or kv.get("what")
                if key in seen:
                    continue
                seen.add(key)
                want = ("clause=" if kind == "spec" else "what=") + key
                hdr, ops = self._case_of(save, kv)
                if len(ops) > 1:
                    ops = runner.ddmin(hdr, ops, lambda ls: self._fails(harness, driver, ls, prefix, want))
                self._fails(harness, driver, hdr + ops, prefix, want)
                shown = open(self.work("shrink.out")).read().splitlines()
                what = ("spec:C18:" + key) if kind == "spec" else key
                dest.append(runner.Finding(kind, what, shown, {"driver": l}, {"clause": key}))

    def correspondence(self, tier, seed, harness, driver):
        res = runner.Result()
        total = {}

        def add(stats):
            for k, v in stats.items():
                total[k] = total.get(k, 0) + v

        def stats_of(lines, what):
            st = {}
            for l in lines:
                if l.startswith("STATS"):
                    st = {k: int(v) for k, v in core.parse_kv(l).items()}
            if not st:
                raise core.TieBroken(f"driver:c18:no-stats:{what}", "\n".join(lines[-20:]))
            return st

        # corpus first: hand-written seeds and minimised past disagreements
        corpus = sorted(glob.glob(os.path.join(core.ROOT, "corpus", "C18", "*.ops")))
        for i, path in enumerate(corpus):
            save = self.work(f"corpus{i}.out")
            lines = self._run([harness, "ops", path], driver, save)
            add(stats_of(lines, os.path.basename(path)))
            self._collect(res, save, lines, harness, driver)

        save = self.work("gen.out")
        lines = self._run([harness, "gen", "--seed", str(seed), "--tier", tier], driver, save)
        stats = stats_of(lines, "gen")
        add(stats)
        self._collect(res, save, lines, harness, driver)

        res.stats = total
        res.extra = {"corpus_files": [os.path.basename(p) for p in corpus]}   # also drops the _seen_* scratch sets
        res.evaluations = total["steps"]
        res.distinct_nontrivial = total["nontrivial"]
        res.traces_validated = total["cases"] + total["matches"]
        res.exhaustive = True
        n = 4 if tier == "thorough" else 3
        res.rule = (f"exhaustive: HasPermission on every (pattern, text) with pattern over {{a,B,*,?,\\}} and text over {{a,b,A,*,\\}}, both up to length {n}; "
                    "plus seeded random permission-shaped pairs (wildcard/near-miss/case mutations of the handlers' permission strings). "
                    "Cases: random inventory in shuffled registration order (0-4 hosts, services with or without their host, vars bitmask, "
                    "nullable joins command_endpoint/check_period), user with 0-4 entries (patterns derived from the required permission, "
                    "filters = random DSL lambdas over obj/host vars, names, match(), command_endpoint.name, check_period.name), plural "
                    "name lists of 2-3 registered objects in every permutation (direct and dispatched), 4-9 "
                    "queries of every shape (single name incl. array form, plural list incl. empty and duplicates, type+filter incl. fast-path "
                    "shapes, filter_vars, non-compiling and error-raising filters, type only, nothing, mixtures, invalid/wrong types, two-type "
                    "action queries), each run with the default provider and with a logging provider, plus a per-object access table, plus 1-3 "
                    "authentication: 2000/20000 user inventories (users without password, passwords with a colon, equal client_cn) x ~40 "
                    "Authorization headers (right/empty/prefix/longer/wrong password, no colon, other scheme, no blank, undecodable) through "
                    "ApiUser::GetByAuthHeader and 6 CNs through GetByClientCN; join cases (1/6 of the cases): hosts, services, endpoints and "
                    "time periods sharing names, per-type permissions, GET /v1/objects/... with joins=[command_endpoint, check_period, host] "
                    "(observed: which joined objects were serialized); "
                    "whole HTTP requests (GET/POST/DELETE /v1/objects/<type>[/<name>] with URL parameters and JSON body, joins; POST "
                    "/v1/actions/reschedule-check|remove-acknowledgement; GET /v1/templates/hosts, /v1/variables, /v1/types, /v1/status/..., "
                    "POST /v1/console/execute-script) dispatched through HttpHandler::ProcessRequest (observed: status, result names, "
                    "joined hosts; for the non-object handlers status and result count). "
                    "evaluations = HasPermission + GetFilterTargets + access-table + dispatched-request calls; a case counts as non-trivial when a permission "
                    "filter removed an object from a non-empty result or denied a named object (distinct by hash of the case text, "
                    "counted by the Lean driver)")
        first = runner.extract_case(save, 3)
        res.samples = [l for l in first if not l.startswith("M ")][:10] + ["..."] + [self._line(save, 5000)]
        return res

    @staticmethod
    def _glob(pattern, text):
        """third-party/mmatch semantics on lower-cased strings: `*`, `?`, `\\*`, `\\?`."""
        rx, i, p = "", 0, pattern.lower()
        while i < len(p):
            c = p[i]
            if c == "\\" and i + 1 < len(p) and p[i + 1] in "*?":
                rx += re.escape(p[i + 1]); i += 2; continue
            rx += ".*" if c == "*" else "." if c == "?" else re.escape(c)
            i += 1
        return re.fullmatch(rx, text.lower(), re.S) is not None

    def matches_known(self, entry, finding):
        """F-C18b (classifier create_ignores_filter), narrow: the clause is created_object_is_allowed, the minimised case
        creates an object (cr=1) through PUT /v1/objects/hosts/<name>, at least one entry of the user matches
        objects/create/Host, EVERY matching entry carries a filter, and none of these filters is true of the new object.
        A creation without any matching entry (no_permission_rejects_first), a creation next to an unfiltered or a
        satisfied entry (impossible to flag) and every other clause stay reported."""
        if entry.get("classifier") == "secondary_unfiltered":
            return self._matches_secondary(finding)
        if entry.get("classifier") != "create_ignores_filter" or finding.kind != "spec":
            return False
        if finding.classifier_data.get("clause") != "created_object_is_allowed":
            return False
        try:
            pats = []
            hit = False
            for l in finding.case_lines:
                w = l.split(" | ")[0].split()
                if not w:
                    continue
                if w[0] == "C":
                    pats = []
                elif w[0] == "P":
                    pats.append("" if w[1] == "%e" else w[1])
                elif w[0] == "H" and w[1] == "c" and " | " in l:
                    obs = dict(t.split("=", 1) for t in l.split(" | ")[1].split() if "=" in t)
                    if obs.get("cr") != "1":
                        continue
                    nt = obs["nt"][1:]
                    if len(nt) != len(pats):
                        return False
                    matching = [c for p, c in zip(pats, nt) if self._glob(p, "objects/create/" + w[2])]
                    if not matching or any(c in "-1" for c in matching):
                        return False
                    hit = True
                elif w[0] in ("Q", "A", "X", "G", "M") or (w[0] == "H" and w[1] != "c"):
                    return False      # the minimised witness of this class consists of C, P and create requests only
            return hit
        except (ValueError, IndexError, KeyError):
            return False

    @staticmethod
    def _matches_secondary(finding):
        """F-C18c (classifier secondary_unfiltered), narrow: the clause is secondary_objects_allowed (the spec raises it only for
        a forbidden object that is a dependent of a target and not a target itself; a forbidden target or an unrelated object
        is changed_objects_allowed and stays reported), the minimised case works on an API-created inventory and consists of C, P
        and the two request kinds that have secondary objects (DELETE with cascade=1, schedule-downtime with all_services=1)
        only, and in at least one of them every object acted on beyond the handler's targets is a service of a host that IS a
        target."""
        if finding.kind != "spec" or finding.classifier_data.get("clause") != "secondary_objects_allowed":
            return False
        try:
            api = hit = False
            for l in finding.case_lines:
                w = l.split(" | ")[0].split()
                if not w or w[0].startswith("#"):
                    continue
                if w[0] == "C":
                    api = len(w) == 3 and w[2] == "api"
                elif w[0] == "P":
                    continue
                elif w[0] == "H" and api and ((w[1] == "d" and "cs=1" in w[3:]) or (w[1] == "a:schedule-downtime" and "as=1" in w[3:])):
                    if " | " not in l:
                        continue
                    post = l.split(" | ")[1].split()
                    obs = dict(t.split("=", 1) for t in post[2:] if "=" in t)
                    targets = set() if post[1] == "-" else set(post[1].split(","))
                    acted = obs.get("gone" if w[1] == "d" else "dt", "-")
                    acted = set() if acted == "-" else set(acted.split(","))
                    extra = acted - targets
                    if extra and all(o.startswith("Service/") and "!" in o and ("Host/" + o[len("Service/"):].split("!")[0]) in targets
                                     for o in extra):
                        hit = True
                else:
                    return False
            return hit
        except (ValueError, IndexError, KeyError):
            return False

    def replay(self, path, harness, driver):
        data = json.load(open(path))
        lines = [l for l in data.get("case", []) if l[:2] in ("C ", "P ", "Q ", "A ", "M ", "H ", "G ", "K ", "B ", "N ", "X ", "V ")]
        f = self.work("replay.ops")
        with open(f, "w") as fh:
            fh.write("\n".join(runner.strip_obs(l) for l in lines) + "\n")
        out = self._run([harness, "ops", f], driver, self.work("replay.out"))
        print(open(self.work("replay.out")).read())
        print("\n".join(out))
        return not any(l.startswith(("SPECFAIL", "MISMATCH", "BADLINE")) for l in out)


CHECK = C18()

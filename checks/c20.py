"""C20 — wire codecs: JSON / netstring round trip, malformed input rejected safely.  See DESIGN.md §2 C20."""
import json

from vlib import core, runner
from .base import Check


# JSON theorems (IcingaProofs/C20/JsonLemmas.lean re-exported in IcingaProofs/C20.lean)
JSON_THEOREMS = ["json_string_roundtrip", "surrogate_roundtrip", "json_roundtrip", "int_codec_lawful", "json_roundtrip_int",
                 "utf8_roundtrip", "sanitise_fixes_wellformed", "sanitise_wellformed", "sanitise_idempotent", "sanitise_model_meets_spec",
                 "json_roundtrip_bytes", "json_roundtrip_dict", "json_decode_encode_any", "canon_last_wins",
                 "decode_message_only_objects", "decode_message_roundtrip", "message_model_meets_spec", "recv_message_only_objects", "decode_nesting_bounded",
                 "json_parser_roundtrip", "nesting_limit_matches_source", "jsonDecodeL_eq_some", "json_too_deep_rejected"]


# Behaviour-preserving rewrites of the anchored code that the check must NOT alarm on (built as mutated object files in
# scratch, linked into a scratch harness, corpus + quick generator + translator run on each: no alarm on any of them at
# the first attempt; patches kept as documentation under corpus/C20/negative_controls/*.diff, not applied by the check).
NEGATIVE_CONTROLS = [
    "nc1_buffered_reader_refactor: buffered ReadStringFromStream — length parsing extracted into a helper, locals renamed, independent statements reordered",
    "nc2_error_message_texts: every invalid_argument text of netstring.cpp, DecodeMessage and the nesting guard reworded (error kinds are a statistic "
    "`t_errkind_diff`, never compared; only ok/error/eof, payloads and unread byte counts are)",
    "nc3_bookkeeping_and_buffer_growth: JsonSax keeps an extra open-container counter used by the guard; FillFromStream reallocs 8 KiB of head room instead of 4 KiB",
    "nc4_equivalent_guards: `!(max < 0) && !(len <= max)`, nested ifs, if/else instead of early throw in the buffered reader, early return in DecodeMessage, "
    "`!(size < limit)` in the nesting guard",
    "nc5_translator_anchor_respelled: l_JsonMaxNestingDepth moved to the top of json.cpp into an anonymous namespace, spelled `constexpr … { 1'000u }`, "
    "mentioned in comments with other numbers, guard extracted into a static helper used by start_object/start_array (gen/c20_limits.py still reads 1000)",
    "nc6_tls_readers_share_helper: both TLS readers call one extracted template `ReadLengthField(readOne)`; locals renamed",
]
# Seeded changes re-checked afterwards (all caught with a concrete input): data_length = len (framesSplit, no_crash), DecodeMessage without the
# dictionary test (messageOnlyObjects, no_crash on `4:null,`), limit 2000 (translator/nesting_limit_matches_source + depthLimit at 1001 levels),
# guard missing in start_object (depthLimit, no_crash at 12000 levels on the coroutine path), `>` instead of `>=` (depthLimit at 1001 levels).


class C20(Check):
    prop = "C20"
    required_theorems = ["netstring_roundtrip", "netstring_accepts_only_canonical", "netstring_reader_outcomes",
                         "limit_before_payload", "allocation_bounded", "frames_split_regardless_of_chunking",
                         "netstring_prefix_parse", "buffered_reader_total", "buffered_reader_lenient", "tls_model_meets_spec", "framed_model_meets_spec",
                         "hostile_buffered_meets_spec", "hostile_model_meets_spec",
                         "unauth_limit_selected", "conn_delivers_only_within_limit", "unauth_peer_never_over_1MiB", "conn_model_meets_spec",
                         "send_recv", "tls_violation_rejected", "restore_record_safe",
                         "tls_alloc_meets_spec", "restore_reads_all_frames", "state_model_meets_spec", "restore_decodes_dumped",
                         "state_file_roundtrip", "number_float_int_path",
                         "frames_until_over_limit", "framed_model_meets_spec_full",
                         ] + JSON_THEOREMS
    technique = ("Lean 4 proof (round-trip laws, 'accepted implies canonical', 'visible violation implies error', invariant over the chunked read loop, "
                 "induction over the receive loop of a connection) about hand-written executable models of the netstring readers/writer, the JSON codec, "
                 "JsonRpcConnection's limit selection + receive loop and ConfigObject::RestoreObject; correspondence by differential execution of the real "
                 "JsonEncode/JsonDecode, NetString::WriteStringToStream, the buffered NetString::ReadStringFromStream + StreamReadContext "
                 "(all chunkings of short streams, random chunkings of long ones), both TLS readers over a real TLS connection, a real started JsonRpcConnection "
                 "(authenticated or not, identity with or without Endpoint object), ConfigObject::RestoreObjects on hostile state files, and the real "
                 "ConfigObject::DumpObjects -> file -> ConfigObject::RestoreObjects round trip with records from a few bytes to 3 MB (20 MB thorough); the largest "
                 "single allocation made while a TLS read runs is measured (global operator new replaced in the harness) and judged by the allocation clause")
    level_text = ("Machine-checked theorems (Lean 4 kernel): for every payload and limit the TLS reader model returns exactly the payload of a canonical "
                  "frame and whatever it accepts is canonical; on every stream that VISIBLY violates the format (bad length field, wrong separator, over-limit "
                  "header, wrong terminator) it answers with an error — never a payload, never running on to the end of the stream (tls_violation_rejected); an "
                  "over-limit header is rejected with every byte after ':' unread and nothing allocated, and the allocation never exceeds the limit on any input; "
                  "for every payload list and EVERY chunking (also of every prefix of the stream) the buffered read loop yields exactly the complete frames and "
                  "then EOF, and with a limit exactly the frames before the first oversized one and then the limit error (frames_until_over_limit; "
                  "framed_model_meets_spec_full: the framed-stream clause for ALL payload lists, no within-limit hypothesis); on every byte stream the loop ends within a stated number of calls and items lie inside the buffer; JSON: decode(encode v) = v for "
                  "every tree (all of Unicode, escapes, surrogate pairs, any nesting) over an abstract lawful number codec, instance integers proved; "
                  "JsonRpc::DecodeMessage hands the caller a dictionary exactly for JSON objects and rejects everything else with an error; sender and receiver "
                  "composed (send_recv); a connection selects the 1 MiB limit for every peer that is not authenticated whatever identity it claims, on ANY byte "
                  "stream delivers only messages from canonical frames within that limit (unauth_peer_never_over_1MiB), and for every frame sequence + arbitrary "
                  "tail meets the executable connection specification (conn_model_meets_spec); every state-file record is handled or refused with an error, "
                  "never a crash (restore_record_safe, full statement since the repair of F-C20b); the state file as a whole: for every list of records of ANY size "
                  "(below 10^9) and every chunking, the file DumpObjects writes is read back by RestoreObjects' loop (which has no length limit) into exactly those "
                  "dictionaries, none refused or lost (state_file_roundtrip, restore_reads_all_frames), and for every file and chunking the model of RestoreObjects meets "
                  "the executable state-file clause (state_model_meets_spec); on every byte stream the payload buffer the TLS reader allocates meets the allocation "
                  "clause that is evaluated on the allocation MEASURED in the real reader (tls_alloc_meets_spec). The models are tied to the code by running the real "
                  "functions on the same inputs and diffing every observation; the specification predicates are evaluated on the implementation's own observations")
    level_note = ("Trusted: Lean kernel (+ propext, Classical.choice, Quot.sound), sampled correspondence (exhaustive chunkings of short streams, random otherwise), "
                  "harness/driver. Assumed, not proved: nlohmann's float printer + strtod round trip (number codec law) — now CHECKED BIT-EXACTLY on the implementation: "
                  "clause jsonRoundtrip compares the binary64 bit pattern that went in with the one that came out (both zeros are the integer 0: JsonEncode prints -0.0 "
                  "as 0 by design), so a printer that loses digits or an integer fast path applied to a non-integral value is a spec failure with the number as replay. "
                  "Modelled and proved as well: the UTF-8 layer (utf8cpp validate_next/replace_invalid as Utility::ValidateUTF8 uses them; round trip composed down to bytes), "
                  "Dictionary's sorted-map semantics (encode order, duplicate keys: last wins), the limit selection `m_Endpoint ? -1 : 1 MiB` with the constructor's "
                  "`if (authenticated)` guard, the receive loop up to MessageHandler. Not modelled: JSON whitespace and raw non-ASCII inside JSON text (compared where the "
                  "model accepts), the floating-point printer behind NumberFloat (oracle text, but bit-exact round trip; NumberFloat's integer path itself IS modelled over binary64 bit patterns "
                  "— IcingaModel/C20/Number.lean, theorem number_float_int_path — and the driver prints the literal itself and checks that no other number goes out as an integer literal), what MessageHandler does with a dictionary that "
                  "is not the probe message, type/name lookup and Deserialize inside RestoreObject (exercised by the R cases: the attributes that come back are "
                  "compared with the records of the file as the model decodes it), Serialize inside DumpObjects (the file it writes is an observation), Boost.Asio/OpenSSL, memory safety of the C++ (exercised: every operation "
                  "in a forked child, thorough tier additionally under ASan+UBSan builds of the codec sources). F-C20a (unbounded nesting overflowed the coroutine stack) is fixed "
                  "by 24727c0, F-C20b (state-file record `null` dereferenced a null pointer in RestoreObject) by 7e39c42: both are regression cases in corpus/C20.")
    trusted_base = [
        "modelled, not verified: NetString::WriteStringToStream, both TLS ReadStringFromStream variants (one model: the statements are identical), the buffered "
        "ReadStringFromStream with StreamReadContext::FillFromStream/DropData (a fill = one chunk appended or EOF), JsonRpc::DecodeMessage, JsonRpcConnection's constructor "
        "guard + limit selection + HandleIncomingMessages loop (ReadMessage, DecodeMessage, hand-over to MessageHandler; exceptions end the loop), the first statement of "
        "ConfigObject::RestoreObject (decode, insist on a dictionary), JsonEncode (compact) with nlohmann dump_escaped (ensure_ascii), JsonDecode restricted to whitespace-free text",
        "number formatting/lexing (nlohmann dump of integers/doubles, strtod) is a codec parameter with the law parse(fmt x) = x: proved for the integer instance, "
        "assumed for binary64; on the implementation every generated number must come back with the same binary64 bits (spec clause jsonRoundtrip; the sign of zero is not part "
        "of the value: -0.0 prints as 0)",
        "the UTF-8 layer is modelled (sanitise = utf8::replace_invalid with U+FFFD, strict decoder as the format) and compared byte for byte with Utility::ValidateUTF8; "
        "the JSON text decoder model accepts only the ASCII, whitespace-free language the encoder emits (plus a little more): on other texts it is silent and only the "
        "specification clauses (no crash, DecodeMessage only objects) are evaluated",
        "connection level: a real JsonRpcConnection is constructed (public constructor), registered the way ApiListener::NewClientHandlerInternal does and Start()ed on the IoEngine; "
        "the peer is the harness over a real TLS connection; observed: which verif::probe messages reach a handler registered through ApiFunction::Register, and that the "
        "connection shuts itself down. The ApiListener singleton is a bare object (no certificates, no listener socket); `ep` = an Endpoint object named like the identity exists",
        "state file: ConfigObject::RestoreObjects is called on files written by the harness (one Host object registered); observed: returned/threw, the Host's check_attempt afterwards; "
        "a crash of a worker thread ends the forked child = clause no_crash",
        "thorough tier: json/netstring/stream/fifo/stdiostream/utility/jsonrpc .cpp are rebuilt with -fsanitize=address,undefined and the corpus plus the quick generator "
        "run through that harness (synchronous TLS reader only: ASan cannot follow exceptions on Boost coroutine stacks); a sanitizer report = clause no_crash",
        "state-file round trip (R cases): two registered Host objects get check_attempt, a CheckResult with an output of n bytes and an arbitrary value as `command`; "
        "ConfigObject::DumpObjects(FAState) writes the file, the objects are reset, ConfigObject::RestoreObjects reads it; observed: the file (when <= 6000 bytes) and what the "
        "objects hold afterwards; values with a dictionary key `type` are not generated (Deserialize would instantiate an object: serializer semantics, not the wire format)",
        "allocation probe: the harness replaces the global operator new/delete (malloc/free + a running maximum); the window is the call of JsonRpc::ReadMessage; "
        "OpenSSL's own malloc and the kernel's socket buffers are not counted; the clause allows 256 KiB of bookkeeping/scratch buffers beside the limit",
        "a stream delivers to each FillFromStream call a chunk or end-of-file (FIFO never reports EOF: then the loop is compared up to the last need-data)",
    ]
    assumptions = [
        "payload lengths below 10^9 (longer ones are rejected by every reader: length field over 9 digits)",
        "binary64 <-> text round trip of nlohmann/strtod (law of the model's number codec; on the implementation: every generated finite double must come back bit-exactly, modulo the sign of zero, else spec failure)",
        "the harness's ChunkStream (one prepared chunk per Read, EOF after the last) stands for an arbitrary Stream; real FIFO and StdioStream are driven as well",
        "an authenticated peer WITHOUT Endpoint object: the statement names no limit for it (the code applies 1 MiB); the connection specification accepts either reading there",
    ]

    _env = None   # environment of harness runs (sanitizer options during the sanitizer pass)

    def _run(self, harness_cmd, driver, save):
        hrc, herr, drc, lines = runner.pipeline(harness_cmd, [driver], save, env=self._env)
        if hrc != 0:
            raise core.TieBroken("harness:c20:run", f"rc={hrc} (harness failure; crashes of the real code are reported per operation as X lines)\n{herr}")
        if drc != 0:
            raise core.TieBroken("driver:c20:run", "\n".join(lines[-20:]))
        return lines

    def _fails(self, harness, driver, lines, want_prefix):
        f = self.work("shrink.ops")
        with open(f, "w") as fh:
            fh.write("\n".join(runner.strip_obs(l) for l in lines) + "\n")
        try:
            out = self._run([harness, "ops", f], driver, self.work("shrink.out"))
        except core.TieBroken:
            return False
        return any(l.startswith(want_prefix) for l in out)

    @staticmethod
    def _line(path, n):
        with open(path) as f:
            for i, line in enumerate(f, 1):
                if i == n:
                    return line.rstrip("\n")
        return ""

    def _shrink(self, harness, driver, line, want, save=None, lineno=None):
        """Delta debugging over the bytes of the stream/payload of a T/B/M/K/D line (cuts dropped); F/J lines are
        kept.  An `X <sig> <op>` line (crash) is shrunk as its operation; if the operation alone does not
        reproduce the crash (heap corruption that surfaces later), the preceding operations are added and the
        sequence of lines is minimised instead.  Returns a list of operation lines."""
        op = runner.strip_obs(line)
        if op.startswith("X "):
            op = op.split(" ", 2)[2] if len(op.split(" ", 2)) == 3 else op
        w = op.split()
        if not w:
            return [line]
        if not self._fails(harness, driver, [op], want):
            if save and lineno:
                ctx = []
                with open(save) as f:
                    for i, l in enumerate(f, 1):
                        if i >= lineno:
                            break
                        if i >= lineno - 400 and l.strip() and not l.startswith("X "):
                            ctx.append(runner.strip_obs(l.rstrip("\n")))
                if self._fails(harness, driver, ctx + [op], want):
                    return runner.ddmin([], ctx + [op], lambda ls: self._fails(harness, driver, ls, want))
            return [op]
        if w[0] not in ("T", "B", "M", "K", "D", "S"):
            return [op]
        idx = 1 if w[0] in ("K", "D", "S") else 3
        hx = "" if w[idx] == "-" else w[idx]
        if len(hx) > 4000:
            return [op]
        by = [hx[i:i + 2] for i in range(0, len(hx), 2)]

        def mk(bs):
            v = list(w)
            v[idx] = "".join(bs) or "-"
            if w[0] in ("T", "B", "M"):
                v[4] = "-"
            return " ".join(v)

        if not self._fails(harness, driver, [mk(by)], want):
            return [op]
        by = runner.ddmin([], by, lambda bs: self._fails(harness, driver, [mk(bs)], want))
        return [mk(by)]

    @staticmethod
    def _null_records(data):
        """(all, some): the bytes are canonical netstring frames from the start; every / some payload is the JSON text
        `null` (modulo JSON whitespace).  Parsing stops at the first byte that is not a canonical frame."""
        import re
        pos, n_null, n_other = 0, 0, 0
        while pos < len(data):
            m = re.match(rb"(0|[1-9][0-9]{0,8}):", data[pos:])
            if not m:
                n_other += 1
                break
            ln = int(m.group(1))
            start = pos + m.end()
            if start + ln >= len(data) or data[start + ln:start + ln + 1] != b",":
                n_other += 1
                break
            if data[start:start + ln].strip(b" \t\r\n") == b"null":
                n_null += 1
            else:
                n_other += 1
            pos = start + ln + 1
        return (n_null > 0 and n_other == 0, n_null > 0)

    @staticmethod
    def _classify(case_lines, minimised=False):
        """Narrow classifier of a crash witness.  `c20_deep_nesting_stack_overflow`: the operation's JSON text nests
        >= 4000 containers.  `c20_state_record_null` (F-C20b): a state file (S operation) with a well-framed record
        `null`; for a minimised witness: consisting of nothing but such records."""
        for l in case_lines:
            op = runner.strip_obs(l)
            if op.startswith("X "):
                parts = op.split(" ", 2)
                op = parts[2] if len(parts) == 3 else ""
            w = op.split()
            if len(w) == 2 and w[0] == "S":
                try:
                    data = bytes.fromhex("" if w[1] == "-" else w[1])
                except ValueError:
                    continue
                all_null, some_null = C20._null_records(data)
                if all_null if minimised else some_null:
                    return "c20_state_record_null"
                continue
            if not w or w[0] not in ("K", "D", "M", "T"):
                continue
            hx = w[1] if w[0] in ("K", "D") else (w[3] if len(w) > 3 else "")
            try:
                data = bytes.fromhex("" if hx == "-" else hx)
            except ValueError:
                continue
            depth = best = 0
            for b in data:
                if b in (0x5B, 0x7B):
                    depth += 1
                    best = max(best, depth)
                elif b in (0x5D, 0x7D):
                    depth -= 1
            if best >= 4000:
                return "c20_deep_nesting_stack_overflow"
        return ""

    def matches_known(self, entry, finding):
        return False      # C20 has no open known finding (F-C20a, F-C20b are fixed); `_classify` only keeps crash classes apart

    def generate(self):
        """Translator: l_JsonMaxNestingDepth of lib/base/json.cpp -> IcingaProofs/Gen/Limits.lean (theorem
        nesting_limit_matches_source compares it with the model's constant)."""
        import importlib.util, os
        gen = os.path.join(core.ROOT, "gen", "c20_limits.py")
        spec = importlib.util.spec_from_file_location("c20_limits", gen)
        mod = importlib.util.module_from_spec(spec)
        spec.loader.exec_module(mod)
        try:
            with core.Lock("lake"):
                self.nesting_limit = mod.generate(core.REPO, os.path.join(core.LEAN, "IcingaProofs", "Gen", "Limits.lean"))
        except mod.Lost as e:
            raise core.TieBroken("translator:C20:anchor-lost", str(e))

    def _collect(self, lines, save, harness, driver, res, tag):
        """Turn the driver's SPECFAIL/MISMATCH/BADLINE lines into shrunk findings."""
        bad = [l for l in lines if l.startswith("BADLINE")]
        if bad:
            res.corr_failures.append(runner.Finding("corr", "protocol" + tag, bad[:5]))
        seen = set()
        for l in lines:
            if l.startswith("SPECFAIL"):
                kv = core.parse_kv(l)
                case = self._line(save, int(kv["line"]))
                # crashes are told apart by the class of their input, so that a known one never hides a new one
                cls = self._classify([case]) if kv["clause"] == "no_crash" else ""
                key = (kv["clause"], cls)
                if key in seen:
                    continue
                seen.add(key)
                small = self._shrink(harness, driver, case, "SPECFAIL", save, int(kv["line"]))
                self._fails(harness, driver, small, "SPECFAIL")
                shown = [x for x in open(self.work("shrink.out")).read().splitlines() if x.strip()]
                if not any(x.startswith("X ") for x in shown) and kv["clause"] == "no_crash":
                    shown = [case]      # did not reproduce in isolation: keep the original observation
                detail = {"driver": l}
                if tag:
                    detail["sanitizer_report"] = self._san_report()
                    detail["harness"] = harness
                if kv["clause"] == "no_crash" and cls == "c20_state_record_null" and self._classify(shown, minimised=True) != cls:
                    cls = "other_crash_in_state_file_with_null_record"
                what = "spec:C20:" + kv["clause"] + (":" + cls if cls else "") + tag
                res.spec_failures.append(runner.Finding("spec", what, shown, detail))
        seen = set()
        for l in lines:
            if l.startswith("MISMATCH") and len(seen) < 3:
                kv = core.parse_kv(l)
                if kv.get("kind") in seen:
                    continue
                seen.add(kv.get("kind"))
                case = self._line(save, int(kv["line"]))
                small = self._shrink(harness, driver, case, "MISMATCH")
                self._fails(harness, driver, small, "MISMATCH")
                shown = open(self.work("shrink.out")).read().splitlines()
                res.corr_failures.append(runner.Finding("corr", "observation:" + kv.get("kind", "?") + tag, shown, {"driver": l}))

    # ------------------------------------------------------------------ sanitizer pass (thorough tier)
    SAN_SOURCES = ["lib/base/json.cpp", "lib/base/netstring.cpp", "lib/base/stream.cpp", "lib/base/fifo.cpp",
                   "lib/base/stdiostream.cpp", "lib/base/utility.cpp", "lib/remote/jsonrpc.cpp"]
    SAN_FLAGS = ["-fsanitize=address,undefined", "-fno-sanitize-recover=undefined", "-fno-sanitize=vptr",
                 "-fno-omit-frame-pointer", "-O1", "-g1"]

    def _san_report(self):
        import glob, os
        files = sorted(glob.glob(self.work("asan", "report.*")), key=os.path.getmtime)
        return open(files[-1], errors="replace").read()[:6000] if files else ""

    def build_asan(self):
        """Compile only the codec sources (and the harness) with ASan+UBSan into _work/c20/asan/ and link
        `h_c20_asan` against the otherwise unchanged object files."""
        import os, subprocess
        from concurrent.futures import ThreadPoolExecutor
        d = os.path.dirname(self.work("asan", "x"))
        base = ["g++", "-std=c++17", "-w", f"-D{core.GUARD}", "-DBOOST_ASIO_USE_TS_EXECUTOR_AS_DEFAULT",
                "-DBOOST_COROUTINES_NO_DEPRECATION_WARNING", "-DBOOST_FILESYSTEM_NO_DEPRECATED", "-D_GNU_SOURCE",
                "-DNDEBUG", "-pthread"] + self.SAN_FLAGS + core.include_flags() + ["-isystem", os.path.join(core.REPO, "third-party/mmatch"), "-isystem", os.path.join(core.REPO, "third-party/execvpe"), "-isystem", os.path.join(core.REPO, "third-party/socketpair")]
        jobs = [(os.path.join(core.REPO, src), os.path.join(d, src.replace("/", "_") + ".o")) for src in self.SAN_SOURCES]
        jobs.append((os.path.join(core.HARNESS, "c20.cpp"), os.path.join(d, "c20_harness.o")))

        def stale(src, obj):
            dep = obj + ".d"
            if not (os.path.exists(obj) and os.path.exists(dep)):
                return True
            t = os.path.getmtime(obj)
            txt = open(dep).read().replace("\\\n", " ")
            deps = txt.split(":", 1)[1].split() if ":" in txt else [src]
            return any((not os.path.exists(x)) or os.path.getmtime(x) > t for x in deps)

        def compile_one(job):
            src, obj = job
            if not stale(src, obj):
                return 0, ""
            return core.run(base + ["-MD", "-MF", obj + ".d", "-c", src, "-o", obj])

        with core.Lock("harness_c20_asan"):
            t0 = __import__("time").time()
            with ThreadPoolExecutor(8) as ex:
                results = list(ex.map(compile_one, jobs))
            for (src, _), (rc, out) in zip(jobs, results):
                if rc != 0:
                    raise core.TieBroken("harness:c20:asan-compile:" + os.path.basename(src), out[-5000:])
            exe = os.path.join(core.BIN, "h_c20_asan")
            replaced = tuple("/" + os.path.basename(src) + ".o" for src in self.SAN_SOURCES)
            objs = [o for o in core.repo_objects() if "/lib/cli/" not in o and not o.endswith(replaced)]
            mine = [obj for _, obj in jobs]
            newest = max(os.path.getmtime(x) for x in objs + mine)
            if not (os.path.exists(exe) and os.path.getmtime(exe) >= newest):
                rsp = os.path.join(d, "link.rsp")
                with open(rsp, "w") as f:
                    f.write("\n".join(objs + mine))
                rc, out = core.run(["g++", "-pthread", "-fsanitize=address,undefined", "-o", exe, "@" + rsp] + core.LIBS)
                if rc != 0:
                    raise core.TieBroken("harness:c20:asan-link", out[-5000:])
            core.log("sanitizer harness h_c20_asan ready (%.1fs)" % (__import__("time").time() - t0))
        return exe

    def _sanitizer_pass(self, seed, driver, res):
        """Thorough tier: the corpus and the quick generator's operations once more through the ASan/UBSan
        build of the codec sources.  A sanitizer report ends the child: `X` line = clause no_crash, with the input."""
        import glob, os
        exe = self.build_asan()
        for f in glob.glob(self.work("asan", "report.*")):
            os.remove(f)
        self._env = dict(os.environ, C20_NO_CORO="1",
                         ASAN_OPTIONS="abort_on_error=1:detect_leaks=0:alloc_dealloc_mismatch=0:detect_container_overflow=0:detect_stack_use_after_return=0:"
                                      "handle_segv=0:handle_abort=0:log_path=" + self.work("asan", "report"),
                         UBSAN_OPTIONS="print_stacktrace=1:halt_on_error=1:log_path=" + self.work("asan", "report"))
        try:
            for f in sorted(glob.glob(os.path.join(core.ROOT, "corpus", "C20", "*.ops"))):
                save = self.work("asan_corpus.out")
                out = self._run([exe, "ops", f], driver, save)
                self._collect(out, save, exe, driver, res, ":sanitizer")
            save = self.work("gen_asan.out")
            lines = self._run([exe, "gen", "--seed", str(seed), "--tier", "quick"], driver, save)
            st = {}
            for l in lines:
                if l.startswith("STATS"):
                    st = {k: int(v) for k, v in core.parse_kv(l).items()}
            if not st:
                raise core.TieBroken("driver:c20:no-stats:sanitizer", "\n".join(lines[-20:]))
            res.extra["sanitizer_pass"] = {"flags": " ".join(self.SAN_FLAGS), "sources": self.SAN_SOURCES, "cases": st["cases"],
                                           "evaluations": st["steps"], "crashes": st.get("crashes", 0),
                                           "mismatches": st["mismatches"], "specfails": st["specfails"]}
            res.evaluations += st["steps"]
            self._collect(lines, save, exe, driver, res, ":sanitizer")
        finally:
            self._env = None

    def correspondence(self, tier, seed, harness, driver):
        res = runner.Result()
        lines = []
        # corpus first
        import glob, os
        for f in sorted(glob.glob(os.path.join(core.ROOT, "corpus", "C20", "*.ops"))):
            out = self._run([harness, "ops", f], driver, self.work("corpus.out"))
            self._collect(out, self.work("corpus.out"), harness, driver, res, "")
        save = self.work("gen.out")
        lines = self._run([harness, "gen", "--seed", str(seed), "--tier", tier], driver, save)
        stats = {}
        for l in lines:
            if l.startswith("STATS"):
                stats = {k: int(v) for k, v in core.parse_kv(l).items()}
        if not stats:
            raise core.TieBroken("driver:c20:no-stats", "\n".join(lines[-20:]))
        res.stats = stats
        res.evaluations = stats["steps"]
        res.distinct_nontrivial = stats["nontrivial"]
        res.traces_validated = stats["cases"]
        res.exhaustive = True
        res.rule = ("exhaustive: every cut of 13 short framed streams (<= 13 bytes; 16 thorough) and of 10 hostile streams into consecutive chunks, through a "
                    "chunk-delivering Stream and the real FIFO; seeded random: JSON trees (all Unicode planes, escapes, nesting to 64, numbers incl. 2^53, -0, "
                    "subnormals, 1e300), numbers and strings alone, hostile JSON text (mutations, invalid UTF-8, nesting to 10000), framed streams with random "
                    "chunkings (payloads to 60 KB, limits), hostile netstring streams (bad length fields, truncation, mutation), TLS reads (sync + coroutine) of valid, "
                    "over-limit and hostile streams with random write sizes over a real TLS connection; JsonRpc::DecodeMessage on null/scalars/arrays/objects/malformed "
                    "payloads, directly and through ReadMessage+DecodeMessage+use of the result over TLS as the receive loop does; Utility::ValidateUTF8 on hostile byte strings "
                    "(every error class of utf8cpp, range boundaries, random bytes) and values whose strings/keys are ill-formed UTF-8. Every operation runs in a forked "
                    "child: a crash/abort/hang of the real code becomes `X <signal> <operation>` = clause no_crash, shrunk and replayable. evaluations = reader calls + codec round trips; a case "
                    "counts as non-trivial (distinct by hash of its operation line, counted by the Lean driver) when it produced an item/error/non-EOF outcome, "
                    "an escape, a container or a fraction. Added: a real started JsonRpcConnection for all four combinations of authenticated x Endpoint-object-exists — probe messages of "
                    "every size around 1 MiB (exactly 1048576, one more, 2 MiB; thorough 10 MiB), byte-wise writes, hostile tails, 500 random streams (2500 thorough): observed = the "
                    "messages that reached the handler; ConfigObject::RestoreObjects on state files whose records are null / scalars / arrays / objects lacking or mistyping "
                    "type, name, update, next to one applicable record, with framing mutations (1200 random files; 6000 thorough), and with records of 4 KB to 300 KB "
                    "before/behind the applicable one; R cases: DumpObjects -> RestoreObjects with outputs of 0 B to 3 MB (sizes around 4 KiB, 64 KiB, 1 MiB; 20 MB thorough) in the first or "
                    "the second object and 400 random values (3000 thorough) as `command`; every T case carries the largest allocation made during the read")
        res.samples = [self._line(save, k)[:300] for k in (1, 2, 110100, 170100, 185000, 260000, 264000, 270000, 299000, 341500, 342500) if self._line(save, k)]
        self._collect(lines, save, harness, driver, res, "")
        if tier == "thorough":
            self._sanitizer_pass(seed, driver, res)
        return res

    def replay(self, path, harness, driver):
        data = json.load(open(path))
        lines = [l for l in data.get("case", []) if l[:2] in ("T ", "F ", "B ", "J ", "K ", "D ", "M ", "C ", "S ", "R ", "U ", "X ")]
        f = self.work("replay.ops")
        with open(f, "w") as fh:
            fh.write("\n".join(runner.strip_obs(l) for l in lines) + "\n")
        out = self._run([harness, "ops", f], driver, self.work("replay.out"))
        print(open(self.work("replay.out")).read())
        print("\n".join(out))
        return not any(l.startswith(("SPECFAIL", "MISMATCH", "BADLINE")) for l in out)


CHECK = C20()

"""C05 — downtimes: in-effect window, flexible trigger, chained triggers, start/end once.  See DESIGN.md §2 C05."""
import glob
import json
import os
import shutil
import tempfile

from vlib import core, runner
from .base import Check

OPS = ("A ", "R ", "T ", "X ", "P ")


def parse_line(line):
    """('A', [ints...], obs) with obs = dict(rc, depth, in, dts{id: trig}, evs{(ev, id): n}) or None."""
    pre, _, post = line.partition(" | ")
    w = pre.split()
    op, args = w[0], [int(x) for x in w[1:]] if w and w[0] in ("A", "R", "T", "X", "P") else []
    obs = None
    if post.strip():
        t = [int(x) for x in post.split()]
        n = t[3]
        dts = {t[4 + 2 * i]: t[5 + 2 * i] for i in range(n)}
        m = t[4 + 2 * n]
        base = 5 + 2 * n
        evs = {(t[base + 3 * i], t[base + 3 * i + 1]): t[base + 3 * i + 2] for i in range(m)}
        obs = {"rc": t[0], "depth": t[1], "in": t[2], "dts": dts, "evs": evs}
    return op, args, obs


def adds_of(lines):
    """id -> dict of the parameters of every accepted add."""
    out = {}
    for l in lines:
        op, a, obs = parse_line(l)
        if op == "A" and (obs is None or obs["rc"] == 1) and a[0] not in out:
            out[a[0]] = {"fixed": a[1], "start": a[2], "end": a[3], "dur": a[4], "trigBy": a[5], "owner": a[6], "now": a[7]}
    return out


# ---- narrow classifiers of the recorded defects: (clause, case lines up to and including the failing one) ----

def cls_start_timer_at_end_of_fixed(clause, lines):
    """F-C05a: the pump fires at exactly now = end_time of a fixed downtime and DowntimeStart is requested for it again."""
    if clause != "start_once":
        return False
    op, a, obs = parse_line(lines[-1])
    if op != "T" or obs is None:
        return False
    adds = adds_of(lines[:-1])
    total = {}
    for l in lines:
        for (ev, i), n in (parse_line(l)[2] or {"evs": {}})["evs"].items():
            if ev == 1:
                total[i] = total.get(i, 0) + n
    again = [i for (ev, i), n in obs["evs"].items() if ev == 1 and total.get(i, 0) > 1]
    return bool(again) and all(i in adds and adds[i]["fixed"] == 1 and adds[i]["end"] == a[0] for i in again)


def cls_flexible_on_never_checked(clause, lines):
    """F-C05b: a flexible downtime added to a checkable that never received a result triggers at once."""
    if clause != "flexible_trigger":
        return False
    op, a, obs = parse_line(lines[-1])
    if op != "A" or obs is None or a[1] != 0:
        return False
    if any(parse_line(l)[0] == "R" and (parse_line(l)[2] or {"rc": 1})["rc"] == 1 for l in lines[:-1]):
        return False
    return obs["rc"] == 1 and obs["dts"].get(a[0], 0) != 0 and a[2] <= a[7] <= a[3]


def cls_fixed_triggered_without_start(clause, lines):
    """F-C05c: a fixed downtime is triggered by a non-OK result or through a trigger chain (OnDowntimeTriggered,
    not OnDowntimeStarted), so no DowntimeStart is ever requested although DowntimeEnd will be."""
    if clause not in ("fixed_started_when_triggered", "fixed_end_has_start"):
        return False
    adds = adds_of(lines)
    starts = {}
    excused = set()   # took effect while the checkable was paused: no DowntimeStart is due
    paused = False
    for l in lines:
        o0, a0, obs = parse_line(l)
        for (ev, i), n in (obs or {"evs": {}})["evs"].items():
            if ev == 1:
                starts[i] = starts.get(i, 0) + n
            if ev == 3 and paused:
                excused.add(i)
        if o0 == "P":
            paused = a0[0] == 1
    op, a, obs = parse_line(lines[-1])
    if obs is None:
        return False
    if clause == "fixed_started_when_triggered":
        bad = [i for i, t in obs["dts"].items() if t != 0 and starts.get(i, 0) == 0 and i not in excused]
    else:
        bad = [i for (ev, i), n in obs["evs"].items() if ev == 2 and starts.get(i, 0) == 0 and i not in excused]
    if not bad:
        return False
    for i in bad:
        d = adds.get(i)
        if d is None or d["fixed"] != 1:
            return False
        # it was triggered (ev 3) in some operation without being started (ev 1) in the same one, and that
        # operation was a non-OK result or the downtime is chained to another one
        how = False
        for l in lines:
            o2, a2, ob2 = parse_line(l)
            if ob2 and ob2["evs"].get((3, i), 0) > 0 and ob2["evs"].get((1, i), 0) == 0:
                if (o2 == "R" and a2[0] != 0) or d["trigBy"] != 0:
                    how = True
        if not how:
            return False
    return True


def cls_result_from_the_future(clause, lines):
    """F-C05d: a non-OK result whose execution_end lies in the future of the processing time has given a flexible
    downtime a trigger_time in the future; until that instant it is not 'triggered', so a further non-OK result
    passes CanBeTriggered again and DowntimeStart is requested a second time."""
    if clause != "start_once":
        return False
    op, a, obs = parse_line(lines[-1])
    if op != "R" or obs is None or a[0] == 0:
        return False
    adds = adds_of(lines[:-1])
    total = {}
    for l in lines:
        for (ev, i), n in (parse_line(l)[2] or {"evs": {}})["evs"].items():
            if ev == 1:
                total[i] = total.get(i, 0) + n
    again = [i for (ev, i), n in obs["evs"].items() if ev == 1 and total.get(i, 0) > 1]
    now = a[2]
    return bool(again) and all(i in adds and adds[i]["fixed"] == 0 and obs["dts"].get(i, 0) > now for i in again)


def cls_trigger_before_start(clause, lines):
    """F-C05e: the trigger_time a downtime records lies before its start_time - (a) a non-OK result whose execution_end
    lies before start_time is processed inside the window (TriggerDowntimes(cr->GetExecutionEnd())), or (b) a downtime
    chained to another one inherits the trigger time of that one, which took effect before the chained one's window began."""
    if clause != "trigger_not_before_start":
        return False
    op, a, obs = parse_line(lines[-1])
    if obs is None:
        return False
    adds = adds_of(lines)
    prev = {}
    for l in lines[:-1]:
        o = parse_line(l)[2]
        if o is not None:
            prev = o["dts"]
    bad = [i for i, t in obs["dts"].items() if t != 0 and prev.get(i, 0) == 0 and i in adds and t < adds[i]["start"]]
    if not bad:
        return False
    for i in bad:
        t, d = obs["dts"][i], adds[i]
        by_result = op == "R" and a[0] != 0 and obs["rc"] == 1 and t == a[1] and a[1] < d["start"] <= a[2]
        par = d["trigBy"]
        by_chain = par != 0 and obs["evs"].get((3, par), 0) > 0 and obs["dts"].get(par, t) == t
        if not (by_result or by_chain):
            return False
    return True


# F-C05a / F-C05b / F-C05e are repaired in /repo (eead572, 40d44b0, 2efb740): their classifiers are kept for the record but no longer
# registered, so a recurrence is reported as a violation.
CLASSIFIERS = {
    "c05_fixed_triggered_without_start": cls_fixed_triggered_without_start,
    "c05_result_from_the_future": cls_result_from_the_future,
}


def classify(clause, lines):
    for name, fn in CLASSIFIERS.items():
        try:
            if fn(clause, lines):
                return name
        except (ValueError, IndexError, KeyError):
            pass
    return "unclassified"


# Harmless rewrites of the anchored code on which the whole flow (harness linked against the mutated object, correspondence,
# spec on the implementation's trace, verdict) was run and exits 0 with no VIOLATION line (patches: corpus/C05/negative_controls/*.diff,
# documentation only; runner: _work/scratch/c05/negctl/run.py NAME DIFF).  The seven seeded changes of _work/scratch/c05/mutants/ are
# still caught afterwards.
NEGATIVE_CONTROLS = [
    "n1_cleanup_delay: cleanup timer at end + 0.05 s instead of end + 0.1 s (times are whole seconds; only 'strictly after' is compared)",
    "n2_start_timer_interval / n2b: start timer every 1 s (30 s) instead of 5 s - when the periodic start timer is due is an oracle input "
    "(T <now> <fired>, taken from a sentinel downtime), not part of the model or the specification",
    "n3_trigger_and_count_order: Checkable::TriggerDowntimes walks the std::set in reverse, GetDowntimeDepth via std::count_if "
    "(events are compared as per-operation counts per downtime, never as sequences)",
    "n4_refactor_trigger_and_start: TriggerDowntime with renamed locals, positive guard, extracted CascadeTrigger helper, statements "
    "reordered; Start() registers parent/child before the checkable registry; static timer renamed, timers created in the other order",
    "n5_message_texts: different exception / log texts (removal refusal, 'Could not create/remove downtime', log lines)",
    "n6_guard_spellings: IsInEffect / IsExpired / CanBeTriggered / NotifyDowntimeEnd with equivalent guards (negated forms, ternary, merged ifs)",
    "n7_extra_bookkeeping_and_loop_form: an extra per-downtime trigger counter map, index loop with continue-guards in DowntimesStartTimerHandler",
    "round 4: n6_guard_spellings re-run with the source tie in place (gen/c05_guards.py translates the respelled IsInEffect / IsExpired / CanBeTriggered, "
    "guards_match_source still proves them equal to the model: 25/25 obligations, no violation); the translator + tie proof alone also pass on n1-n5, n7",
]


class C05(Check):
    prop = "C05"
    required_theorems = ["in_downtime_iff", "in_downtime_iff_run", "expired_removed_run", "trigger_not_before_start", "depth_eq_count", "trigger_write_once", "trigger_write_once_run",
                         "trigger_only_in_window", "trigger_cascade", "trigger_cascade_deep", "flexible_trigger", "flexible_trigger_exact", "start_once", "start_once_future_counterexample",
                         "started_partial", "paused_requests_nothing", "started_counterexample", "end_once", "expired_removed", "owner_protected",
                         "model_trace_meets_spec_partial", "start_only_on_effect", "end_exactly_once_run", "flexible_started_run", "guards_match_source"]
    technique = ("Lean 4 proof (invariants over the operation sequence) about a hand-written model of lib/icinga/downtime.cpp; correspondence by "
                 "differential execution of real Host/Service/Downtime objects under the virtual clock and the timer pump")
    level_text = ("Machine-checked theorems (Lean 4 kernel) about the executable model of Downtime::IsInEffect/IsTriggered/IsExpired/CanBeTriggered/"
                  "TriggerDowntime/Start/DowntimesStartTimerHandler/cleanup timer/RemoveDowntime and Checkable::TriggerDowntimes/GetDowntimeDepth/"
                  "IsInDowntime, including a whole-trace theorem (model_trace_meets_spec_partial: every well-formed operation sequence's model trace "
                  "satisfies every clause kind of the executable specification through the specification's own bookkeeping except the two falsified by the code "
                  "(18 of 20; masked: fixed_started_when_triggered / fixed_end_has_start = F-C05c; the DowntimeStart-when-it-takes-effect "
                  "clauses are proved for flexible downtimes; new: start_only_on_effect - a DowntimeStart request is made only in the operation in which the downtime "
                  "takes effect), and run-level forms of in-downtime-iff (with trigger <= now), expired-removed (no hypothesis on the cleanup timer), "
                  "DowntimeStart only on taking effect (start_only_on_effect), exactly one DowntimeStart for a flexible downtime iff it took effect (flexible_started_run, runs "
                  "without pausing) and exactly one DowntimeEnd iff the downtime that went had taken effect (end_exactly_once_run); guards_match_source proves the model's "
                  "isTriggered / isInEffect / isExpired / canBeTriggered equal, for all instants and downtimes, to the functions gen/c05_guards.py translates from the bodies of "
                  "Downtime::IsTriggered / IsInEffect / IsExpired / CanBeTriggered in lib/icinga/downtime.cpp on every run; "
                  "the model is tied to the code by running the real objects (direct construction as test/icinga-checkresult.cpp does, "
                  "one case in eight through ConfigObjectUtility::CreateObject / Downtime::AddDowntime in a scratch data directory, one in sixteen "
                  "through the registered API actions schedule-downtime / remove-downtime, i.e. ApiActions::ScheduleDowntime / RemoveDowntime, and one in sixteen through the "
                  "external commands SCHEDULE_HOST/SVC_DOWNTIME / DEL_HOST/SVC_DOWNTIME, i.e. ExternalCommandProcessor::Execute with legacy ids) on generated "
                  "operation sequences and diffing every observation; the executable specification of the property is evaluated on the "
                  "implementation's own trace")
    level_note = ("Trusted: Lean kernel (+ propext, Classical.choice, Quot.sound), sampled correspondence of the hand-written model (its four window predicates are "
                  "tied to the source text by translator + theorem), harness/driver, translator gen/c05_guards.py. "
                  "One clause of the property is false of the code and carried as _partial/_counterexample: a DowntimeStart request for every FIXED downtime that took effect "
                  "(known finding F-C05c; proved for flexible ones); F-C05a/b/e are repaired (eead572, 40d44b0, 2efb740: TriggerDowntime clamps the trigger time to the downtime's own "
                  "start_time) and their theorems (start_once, flexible_trigger, trigger_not_before_start) are full.")
    trusted_base = [
        "translator gen/c05_guards.py: parses the bodies of Downtime::IsTriggered / IsInEffect / IsExpired / CanBeTriggered (locals, if/else, return, ?:, ||, &&, !, "
        "comparisons, +, -, min/max, the getters and the four predicates) into IcingaProofs/Gen/DowntimeGuards.lean with double -> Int; guards_match_source proves the result equal "
        "to the model's predicates by case split + linear arithmetic (any equivalent spelling passes, any changed comparison fails; a construct outside the subset is reported as a lost anchor)",
        "modelled, not verified: times are whole seconds, so the cleanup timer's 0.1 s delay is 'the first instant strictly after'; "
        "Downtime objects get authority (Resume) right after creation, as ApiListener::UpdateObjectAuthority does for HARunOnce objects; "
        "pausing a Downtime object itself (its cleanup timer), child downtimes on other checkables (parent/child_options), ScheduledDowntime's own creation/removal, cluster sync and "
        "execution_end in the future of the processing time are outside the model; the checkable's max_check_attempts (1-4, i.e. SOFT and HARD problems) is varied by the "
        "harness and deliberately absent from the model and the specification: the property does not depend on the state type",
    ]
    assumptions = [
        "timestamps used by the harness are integers (exact in binary64); check results carry execution_start = execution_end <= now, except in one generated case in twelve where some lie up to 6 s in the future (outside the hypothesis WF of the whole-run theorems; what the code does there is F-C05d)",
        "the order in which Checkable::TriggerDowntimes walks the std::set of downtimes does not influence the observation (checked by the diff)",
        "every downtime name is used at most once per case",
    ]

    # Every invocation works in a directory of its own: two checks of this property running at the same time (another
    # seed, another tier, a replay) must never write the same gen.out / shrink.ops through independent file offsets.
    _run_dir = None

    def work(self, *parts):
        if self._run_dir is None:
            base = os.path.join(core.WORK, self.prop.lower())
            os.makedirs(base, exist_ok=True)
            import time
            for old in glob.glob(os.path.join(base, "run-*")):      # left behind by an interrupted run
                try:
                    if time.time() - os.path.getmtime(old) > 86400:
                        shutil.rmtree(old, ignore_errors=True)
                except OSError:
                    pass
            type(self)._run_dir = tempfile.mkdtemp(prefix="run-%d-" % os.getpid(), dir=base)
        p = os.path.join(self._run_dir, *parts)
        os.makedirs(os.path.dirname(p), exist_ok=True)
        return p

    def _cleanup(self, keep):
        d = self._run_dir
        type(self)._run_dir = None
        if d and not keep:
            shutil.rmtree(d, ignore_errors=True)

    def _run(self, harness_cmd, driver, save):
        hrc, herr, drc, lines = runner.pipeline(harness_cmd, [driver], save)
        if hrc != 0:
            raise core.TieBroken("harness:c05:run", f"rc={hrc}\n{herr}")
        if drc != 0:
            raise core.TieBroken("driver:c05:run", "\n".join(lines[-20:]))
        return lines

    def _replay_lines(self, harness, driver, lines, tag="shrink"):
        f = self.work(tag + ".ops")
        with open(f, "w") as fh:
            fh.write("\n".join(runner.strip_obs(l) for l in lines) + "\n")
        out = self._run([harness, "ops", f], driver, self.work(tag + ".out"))
        shown = open(self.work(tag + ".out")).read().splitlines()
        return out, shown

    def _fails(self, harness, driver, lines, want):
        out, _ = self._replay_lines(harness, driver, lines)
        return any(l.startswith(want) for l in out)

    def _failing_prefix(self, harness, driver, lines, want):
        """Replay, return (driver line, case lines with observations cut after the failing operation)."""
        out, shown = self._replay_lines(harness, driver, lines)
        for l in out:
            if l.startswith(want):
                return l, shown[:int(core.parse_kv(l)["line"])]
        return None, shown

    def _shrink(self, harness, driver, case, want):
        hdr, ops = case[:1], case[1:]
        ops = runner.ddmin(hdr, ops, lambda ls: self._fails(harness, driver, ls, want))
        return self._failing_prefix(harness, driver, hdr + ops, want)

    def _examine(self, res, harness, driver, save, lines, origin):
        bad = [l for l in lines if l.startswith("BADLINE")]
        if bad:
            res.corr_failures.append(runner.Finding("corr", "protocol", bad[:5], {"origin": origin}))
        # every spec failure is classified on its own case; one representative per (clause, class) is shrunk
        groups = {}
        allcases = None
        fails = [core.parse_kv(l) for l in lines if l.startswith("SPECFAIL")]
        if fails:
            allcases = open(save).read().splitlines()
            starts = [i for i, l in enumerate(allcases) if l.startswith("C ")]
        for kv in fails:
            ln, cno = int(kv["line"]), int(kv["case"])
            case = allcases[starts[cno - 1]:ln]
            key = (kv["clause"], classify(kv["clause"], case))
            groups.setdefault(key, []).append(case)
        res.extra.setdefault("spec_failure_groups", {})
        for (clause, cl), cases in sorted(groups.items()):
            res.extra["spec_failure_groups"][f"{origin}:{clause}:{cl}"] = len(cases)
            what = f"spec:C05:{clause}:{cl}"
            if any(f.what == what for f in res.spec_failures):
                continue
            case = min(cases, key=len)
            want = "SPECFAIL"
            drv, shown = self._shrink(harness, driver, case, want)
            if drv is None:
                res.corr_failures.append(runner.Finding("corr", "unstable-spec-failure", case, {"origin": origin}))
                continue
            res.spec_failures.append(runner.Finding("spec", what, shown, {"driver": drv, "origin": origin, "cases_in_group": len(cases)},
                                                    {"clause": core.parse_kv(drv)["clause"], "pre_class": cl}))
        seen = 0
        for l in lines:
            if l.startswith("MISMATCH") and seen < 3:
                seen += 1
                kv = core.parse_kv(l)
                case = runner.extract_case(save, int(kv["case"]))
                drv, shown = self._shrink(harness, driver, case, "MISMATCH")
                res.corr_failures.append(runner.Finding("corr", "step-observation", shown, {"driver": drv or l, "origin": origin}))

    def correspondence(self, tier, seed, harness, driver):
        try:
            return self._correspondence(tier, seed, harness, driver)
        finally:
            # minimised witnesses travel inside the findings; VERIF_C05_KEEP=1 keeps the raw outputs for inspection
            self._cleanup(bool(os.environ.get("VERIF_C05_KEEP")))

    def _correspondence(self, tier, seed, harness, driver):
        res = runner.Result()
        total = {}
        # corpus first: hand-written seeds and the witnesses of the recorded findings
        for f in sorted(glob.glob(os.path.join(core.ROOT, "corpus", "C05", "*.ops"))):
            save = self.work("corpus_" + os.path.basename(f) + ".out")
            lines = self._run([harness, "ops", f], driver, save)
            for l in lines:
                if l.startswith("STATS"):
                    for k, v in core.parse_kv(l).items():
                        total[k] = total.get(k, 0) + int(v)
            self._examine(res, harness, driver, save, lines, "corpus/" + os.path.basename(f))
        save = self.work("gen.out")
        lines = self._run([harness, "gen", "--seed", str(seed), "--tier", tier], driver, save)
        stats = {}
        for l in lines:
            if l.startswith("STATS"):
                stats = {k: int(v) for k, v in core.parse_kv(l).items()}
        if not stats:
            raise core.TieBroken("driver:c05:no-stats", "\n".join(lines[-20:]))
        for k, v in stats.items():
            total[k] = total.get(k, 0) + v
        res.stats = total
        res.evaluations = total["steps"]
        res.distinct_nontrivial = total["nontrivial"]
        res.traces_validated = total["cases"]
        res.exhaustive = False
        res.rule = ("corpus/C05/*.ops, then a systematic part (one fixed or flexible downtime [1010,1016), host/service, max_check_attempts 1 or 3, every placement of "
                    "add / result / pump instants on a grid around the window), a systematic part for trigger chains (fixed or flexible trigger downtime with 2-3 chained "
                    "downtimes and optionally one chained to the second of them, every subset of the chained ones removed by a user or expired before the trigger downtime "
                    "takes effect through the start timer or a non-OK result) and seeded random cases (half of them with max_check_attempts 2-4): 1-5 fixed/flexible downtimes "
                    "(same / nested / adjacent / random windows, chained via triggered_by, owned by a schedule), 4-25 (thorough 4-43) operations "
                    "add / result / pump / remove / pause-resume of the checkable at instants drawn from all boundary instants +-1 plus small random steps; one case in eight "
                    "creates checkable and downtimes through ConfigObjectUtility::CreateObject / Downtime::AddDowntime, one in sixteen additionally "
                    "schedules / removes through the API actions schedule-downtime / remove-downtime, one in sixteen through the external commands "
                    "SCHEDULE_HOST/SVC_DOWNTIME and DEL_HOST/SVC_DOWNTIME (trigger and removal by legacy id). evaluations = operations; "
                    "a case counts as non-trivial when a downtime was triggered or removed in it (counted by the Lean driver)")
        # the start timer's firing is an oracle input taken from the implementation (a sentinel downtime); an oracle that
        # never fires would hide a start timer that no longer starts anything
        if stats.get("pumps", 0) > 1000 and stats.get("timerfired", 0) * 20 < stats["pumps"]:
            res.corr_failures.append(runner.Finding("corr", "oracle:start-timer-hardly-ever-fires",
                                                    [f"pumps={stats['pumps']} timerfired={stats.get('timerfired', 0)}"]))
        res.samples = runner.extract_case(save, 900) + ["..."] + runner.extract_case(save, stats["cases"])[:14]
        self._examine(res, harness, driver, save, lines, "gen")
        return res

    def generate(self):
        """Translator: the bodies of Downtime::IsTriggered / IsInEffect / IsExpired / CanBeTriggered (lib/icinga/downtime.cpp)
        -> IcingaProofs/Gen/DowntimeGuards.lean; the theorem guards_match_source proves them equal to the model's predicates."""
        import importlib.util
        gen = os.path.join(core.ROOT, "gen", "c05_guards.py")
        spec = importlib.util.spec_from_file_location("c05_guards", gen)
        mod = importlib.util.module_from_spec(spec)
        spec.loader.exec_module(mod)
        try:
            with core.Lock("lake"):
                mod.generate(core.REPO, os.path.join(core.LEAN, "IcingaProofs", "Gen", "DowntimeGuards.lean"))
        except mod.Lost as e:
            raise core.TieBroken("translator:C05:anchor-lost", str(e))

    def matches_known(self, entry, finding):
        fn = CLASSIFIERS.get(entry.get("classifier"))
        if fn is None or finding.kind != "spec":
            return False
        clause = finding.classifier_data.get("clause") or finding.what.split(":")[2]
        # the unminimised failing case must fall into the same class as the minimised witness: shrinking
        # must not turn a different root cause into a recorded one
        if finding.classifier_data.get("pre_class") not in (None, entry.get("classifier")):
            return False
        lines = [l for l in finding.case_lines if l.startswith(OPS) or l.startswith("C ")]
        try:
            return bool(fn(clause, lines))
        except (ValueError, IndexError, KeyError):
            return False

    def replay(self, path, harness, driver):
        data = json.load(open(path))
        lines = [l for l in data.get("case", []) if l.startswith(OPS) or l.startswith("C ")]
        try:
            out, shown = self._replay_lines(harness, driver, lines, "replay")
        finally:
            self._cleanup(False)
        print("\n".join(shown))
        print("\n".join(out))
        return not any(l.startswith(("SPECFAIL", "MISMATCH", "BADLINE")) for l in out)


CHECK = C05()

"""C02 — Problem/Recovery/Flapping notification requests, suppression and release.  DESIGN.md §2 C02."""
from .base import StdCheck


class C02(StdCheck):
    prop = "C02"
    exhaustive = True
    required_theorems = ["result_step_meets_spec", "fire_step_meets_spec", "model_trace_meets_spec_from", "model_trace_meets_spec",
                         "never_while_suppressed", "never_two", "withheld_event_kept_until_ready",
                         "release_at_first_ready_firing", "immediate_request",
                         "handler_result_pair_partial", "handler_result_pair_counterexample",
                         "ack_trace_meets_spec", "ack_without_expiry_stays_in_force",
                         "system_trace_meets_spec_from", "system_trace_meets_spec",
                         "flapping_ring_is_sliding_window", "flapping_starts_only_on_state_change", "stable_object_stops_flapping"]
    technique = ("Lean 4 proof (simulation relation between property-level bookkeeping and the code's bit masks, induction over "
                 "operation sequences and over runs of the handler); correspondence by exhaustive + random differential execution of "
                 "ProcessCheckResult / FireSuppressedNotifications with real downtimes, acknowledgements, parents, authority changes, "
                 "check intervals and next-check times, a second dependency with disable_notifications on/off, acknowledgements set "
                 "on top of each other; the acknowledgement attributes with lazy expiry and the flapping ring buffer are modelled and replayed next to the code")
    level_text = ("Machine-checked theorems that for every configuration, every start state (whatever is withheld and remembered in it) "
                  "and every finite sequence of results and handler runs under arbitrary environments (downtime, acknowledgement, "
                  "reachability, flapping toggles, pause, notification switch, active checks on/off, check interval, distance of the next "
                  "check, parent recovery) the model's requests and its two attributes satisfy the executable specification of the property "
                  "(immediate request exactly on hard events, nothing while suppressed or pending, the withheld event and the hard state "
                  "before suppression remembered in suppressed_notifications / state_before_suppression, release exactly one iff the state "
                  "differs); over any number of consecutive handler runs at most one state notification is requested (never_two), runs at "
                  "which a release condition fails keep the event (withheld_event_kept_until_ready), and the first run at which all hold "
                  "releases it (release_at_first_ready_firing). 'Next check imminent' is computed by specification and model from "
                  "enable_active_checks, check_interval and next_check (IsLikelyToBeCheckedSoon is modelled, its clamp proved equal to "
                  "min 60 (max 0 (interval-10))), no longer taken from the implementation. The model is tied to the code by running the "
                  "real functions on all operation sequences of length 4 (5 thorough) over an 11-symbol alphabet x kind x max 1..2 x "
                  "volatile, a sweep of 21 check intervals x 12 next-check distances x active on/off x 3 withheld situations x kind, "
                  "seeded random interleavings (max 1..4, flapping, two downtimes, ack expiry, timer path via the pump, 12 check intervals, "
                  "moved next checks, overwritten attributes as after a restore/cluster sync), and a handler run with a result processed "
                  "inside its request callback (schedule point between the handler's unlocked read and its write); the same specification "
                  "predicate is evaluated on the implementation's own trace. 'Acknowledged' is no longer taken on trust: the two "
                  "acknowledgement attributes with the lazy expiry inside GetAcknowledgement() and the clearing by ProcessCheckResult are "
                  "modelled; ack_trace_meets_spec proves for every sequence of set (also on top of an acknowledgement in place) / clear / "
                  "results / reads at non-decreasing times that IsAcknowledged() is exactly 'the newest acknowledgement is in force' (not "
                  "cleared, not ended by a state change (normal) or the recovery (sticky), its own expiry not passed), "
                  "system_trace_meets_spec(_from) composes this with the notification bookkeeping (no free 'acknowledged' input), and the "
                  "driver evaluates the same predicate on every IsAcknowledged() the harness reads (clause "
                  "acknowledged_exactly_while_the_newest_acknowledgement_is_in_force; all sequences of 4 (5) over 12 acknowledgement / result "
                  "/ handler operations x kind). Flapping detection is modelled too (ring buffer, weights 0.8..1.18, hysteresis 25/30 %, "
                  "exact integer arithmetic): flapping_ring_is_sliding_window proves it equal to a sliding window over the last 20 results, "
                  "flapping_starts_only_on_state_change and stable_object_stops_flapping bound when FlappingStart/End can be due; the model's "
                  "IsFlapping() before/after every accepted result is compared with the code's (MISMATCH op=FLAP). Unreachable-but-not-for-"
                  "notifications is driven (second Dependency with disable_notifications off/on, all sequences of 3 (4) over 9 operations x "
                  "kind x max x volatile x parent up/down)")
    level_note = ("Trusted: Lean kernel (+ propext, Classical.choice, Quot.sound), harness/driver; the environment facts IsInDowntime, "
                  "IsReachable (inputs read from the implementation; IsAcknowledged and IsFlapping are read too but checked against the "
                  "modelled acknowledgement attributes / flapping ring buffer at every step; at an exact tie of the weighted flapping total "
                  "with a threshold, where binary64 rounding decides in the code, the code's answer is adopted), "
                  "parent recovery, and the attribute values enable_active_checks / check_interval / next_check are inputs read from the "
                  "implementation (their own correctness is C04/C05/C06/C07). Model transcribes the code after the fix: commits for "
                  "F-C02a and F-C02b (known_findings.json, status fixed). F-C02c (known): a result processed between the handler's read "
                  "(checkable-notification.cpp:143) and write (:237-245) is lost; carried as handler_result_pair_partial + "
                  "handler_result_pair_counterexample, reproduced on the real code by corpus/C02/f_c02c_result_during_handler.ops.")
    trusted_base = [
        "not modelled: downtime and reachability predicates (environment inputs read from the object; C05/C07), notification content (C03), "
        "flapping_ignore_states (unset), non-default flapping thresholds",
        "flapping arithmetic is exact in the model (hundredths) and binary64 in the code: equal away from exact ties (enumerated over all "
        "2^20 windows for the default thresholds), at a tie the code's answer is taken",
        "A! calls Checkable::AcknowledgeProblem() on an object that may be acknowledged already (the API action, the external commands "
        "and the cluster handler test IsAcknowledged() first, the API action without a lock); times of acknowledgement operations are "
        "the harness's integer virtual clock (non-decreasing)",
        "the harness recomputes 'a parent recovered since the last result' from public getters with the same formula as the code's lambda",
        "next_check is read from the object (its computation by UpdateNextCheck is C04's); times are integers in microseconds, the "
        "scheduling offset is fixed per case so that next_check is a function of the operations",
        "the only schedule point inside FireSuppressedNotifications the harness can reach without a hook is its own notification request "
        "(a result processed there stands for another thread); a race in a run that requests nothing is not driven",
    ]
    assumptions = ["integer timestamps", "objects are active; retry_interval has its default"]
    rule = ("exhaustive: every sequence of 4 (thorough: 5) operations over {OK, CRITICAL, WARNING results, fixed downtime add/remove, flexible downtime (triggered by the next non-OK result), acknowledge, "
            "parent down/up, handler after 400 s, handler now} after an initial OK, followed by a fixed tail that ends all suppression reasons, "
            "lets the object settle and runs the handler directly and through the registered timer; x host/service x max 1..2 x volatile; plus "
            "the imminence sweep (check_interval in {0..3600} x next_check distance around 0, interval-10 and 60 s x active checks x withheld "
            "Problem/Recovery/nothing owed x kind), 48 handler-with-concurrent-result cases, seeded random interleavings of all fourteen "
            "operation kinds (now eighteen: + second dependency attach/detach/parent result, direct acknowledgement) (6000 / 60000 cases of up to 30 / 60 operations) and 1200 / 8000 flapping scenarios; plus the second-dependency block (9^3 / 9^4 sequences x disable_notifications x kind x max 1..2 x "
            "volatile x parent up/down) and the acknowledgement block (12^4 / 12^5 sequences x kind). evaluations = results + "
            "handler runs; a case is non-trivial when it requested, withheld, released or dismissed a notification (counted by the Lean driver)")

    def matches_known(self, entry, finding):
        """F-C02c only: the clause about a handler run with a concurrent result, failing on an FR operation that really was
        interleaved (the result ran inside the handler's request), whose result was accepted, where exactly one state
        notification (the handler's) was requested and no state bit is left afterwards. Anything else is reported."""
        if entry.get("classifier") != "c02_result_between_handler_read_and_write" or finding.kind != "spec":
            return False
        if not finding.what.endswith(":handler_and_concurrent_result_as_if_one_after_the_other"):
            return False
        frs = [l for l in finding.case_lines if l.startswith("FR ") and " | " in l]
        if len(frs) != 1:      # the minimised witness has exactly one such operation
            return False
        try:
            groups = [g.split() for g in frs[0].split(" | ", 1)[1].split(" ; ")]
            inter, accepted = groups[2][0], groups[2][1]
            sup = int(groups[4][0])
            notifs = [] if groups[5][0] == "-" else groups[5][0].split(",")
        except (IndexError, ValueError):
            return False
        state_notifs = [x for x in notifs if x.split(":")[0] in ("32", "64")]
        return (inter == "1" and accepted == "1" and (sup & 96) == 0 and len(state_notifs) == 1
                and notifs[0] == state_notifs[0])


# Behaviour-preserving rewrites the check was run against (patches under corpus/C01|C02/negative_controls/; documentation only).
NEGATIVE_CONTROLS = [
    "nc1_state_machine_refactor (corpus/C01): ProcessCheckResult's soft/hard branch restructured (problem branch first, merged "
    "'first soft'/'next retry' cases, `max <= attempt`), attempt/stateChange/hardChange as single const expressions, recovery as an "
    "assignment, reordered independent statements, log line reworded and written before OnStateChange",
    "nc2_notification_guard_spellings (corpus/C02): send/suppress decision as one expression with De Morgan'd guards, merged "
    "`!is_flapping && send && !IsPaused()`, pending test `!= 0`, flapping cancel-out as two bit tests, remembered state via a local",
    "nc3_fire_suppressed_refactor (corpus/C02): FireSuppressedNotifications with the early returns merged in another order, the two "
    "suppression reasons tested in a loop, step-wise `mayProcess`, equality instead of inequality for the state comparison, bits "
    "cleared before the notification is requested, flapping loop with continue-guards",
    "nc4_reason_helpers_and_texts (corpus/C02): NotificationReasonSuppressed as if-chain instead of switch (same evaluation order), "
    "IsLikelyToBeCheckedSoon's clamp via std::min/std::max, stale-result test with swapped operands and another log text",
    "nc5_ack_and_reachability_spellings (corpus/C02): GetAcknowledgement with early returns and `now <= expiry`, AcknowledgeProblem "
    "setting the expiry before the type, one GetAcknowledgement() call instead of two in ProcessCheckResult, the two reachability walks "
    "swapped, suppress_notification with IsAcknowledged() evaluated first",
    "(DESIGN §5) neg_control_1/2: GetChildren() hoisted and aliased in ProcessCheckResult, WhileExpression's sandbox message reworded",
]

CHECK = C02()

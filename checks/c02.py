"""C02 — Problem/Recovery/Flapping notification requests, suppression and release.  DESIGN.md §2 C02."""
from .base import StdCheck


class C02(StdCheck):
    prop = "C02"
    exhaustive = True
    required_theorems = ["result_step_meets_spec", "fire_step_meets_spec", "model_trace_meets_spec",
                         "never_while_suppressed", "release_when_clean", "never_two", "immediate_request"]
    technique = ("Lean 4 proof (simulation relation between property-level bookkeeping and the code's bit masks, induction over "
                 "operation sequences); correspondence by exhaustive + random differential execution of ProcessCheckResult / "
                 "FireSuppressedNotifications with real downtimes, acknowledgements, parents and authority changes")
    level_text = ("Machine-checked theorems that for every configuration and every finite sequence of results and handler runs under "
                  "arbitrary environments (downtime, acknowledgement, reachability, flapping toggles, pause, notification switch, "
                  "imminent check, parent recovery) the model's requests satisfy the executable specification of the property "
                  "(immediate request exactly on hard events, nothing while suppressed or pending, remembered state, release exactly "
                  "one iff the state differs, never two); the model is tied to the code by running the real functions on all operation "
                  "sequences of length 4 (5 thorough) over an 11-symbol alphabet x kind x max 1..2 x volatile, plus seeded random "
                  "interleavings (max 1..4, flapping, two downtimes, ack expiry, timer path via the pump); the same specification "
                  "predicate is evaluated on the implementation's own trace")
    level_note = ("Trusted: Lean kernel (+ propext, Classical.choice, Quot.sound), harness/driver; the environment facts (IsInDowntime, "
                  "IsAcknowledged, IsReachable, IsFlapping, IsLikelyToBeCheckedSoon, parent recovery) are oracle inputs read from the "
                  "implementation (their own correctness is C05/C06/C07). Model transcribes the code after the fix: commits for "
                  "F-C02a and F-C02b (known_findings.json, status fixed).")
    trusted_base = [
        "modelled, not verified: flapping formula, downtime/ack/reachability predicates (oracle inputs), notification content (C03)",
        "the harness recomputes 'a parent recovered since the last result' from public getters with the same formula as the code's lambda",
    ]
    assumptions = ["integer timestamps", "objects are active; enable_active_checks and check_interval have their defaults"]
    rule = ("exhaustive: every sequence of 4 (thorough: 5) operations over {OK, CRITICAL, WARNING results, fixed downtime add/remove, flexible downtime (triggered by the next non-OK result), acknowledge, "
            "parent down/up, handler after 400 s, handler now} after an initial OK, followed by a fixed tail that ends all suppression reasons, "
            "lets the object settle and runs the handler directly and through the registered timer; x host/service x max 1..2 x volatile; plus "
            "seeded random interleavings of all ten operation kinds (6000 / 60000 cases of up to 30 / 60 operations). evaluations = results + "
            "handler runs; a case is non-trivial when it requested, withheld, released or dismissed a notification (counted by the Lean driver)")



# Behaviour-preserving rewrites the check was run against (patches under corpus/C01|C02/negative_controls/; documentation only).
NEGATIVE_CONTROLS = [
    "nc1_state_machine_refactor (corpus/C01): ProcessCheckResult's soft/hard branch restructured (problem branch first, merged "
    "'first soft'/'next retry' cases, `max <= attempt`), attempt/stateChange/hardChange as single const expressions, recovery as an "
    "assignment, reordered independent statements, log line reworded and written before OnStateChange",
    "nc2_notification_guard_spellings (corpus/C02): send/suppress decision as one expression with De Morgan'd guards, merged "
    "`!is_flapping && send && !IsPaused()`, pending test `!= 0`, flapping cancel-out as two bit tests, remembered state via a local",
    "nc3_fire_suppressed_refactor (corpus/C02): FireSuppressedNotifications with the early returns merged in another order, the two "
    "suppression reasons tested in a loop, step-wise `mayProcess`, equality instead of inequality for the state comparison, bits "
    "cleared before the notification is requested, flapping loop with continue-guards",
    "nc4_reason_helpers_and_texts (corpus/C02): NotificationReasonSuppressed as if-chain instead of switch (same evaluation order), "
    "IsLikelyToBeCheckedSoon's clamp via std::min/std::max, stale-result test with swapped operands and another log text",
    "(DESIGN §5) neg_control_1/2: GetChildren() hoisted and aliased in ProcessCheckResult, WhileExpression's sandbox message reworded",
]

CHECK = C02()

"""C03 — notification delivery: filters, periods, per-user incident state, reminders.  DESIGN.md §2 C03."""
from vlib import core, runner
from .base import StdCheck

RECIP = "recovery_ack_only_to_users_sent_a_problem_this_incident"


# F-C03a (a Recovery discarded by the type filter kept notified_problem_users) is repaired in /repo (cec0506): its
# classifier is gone, so a recurrence is reported as a violation.
#
# F-C03b: an unforced Recovery request dropped by Checkable::SendNotifications because notifications are switched off
# (globally / for the checkable) leaves notified_problem_users behind.  The class is decided by the Lean driver on the
# unminimised case (the specification rejects the Recovery / Acknowledgement, the weaker reading "the incident ends only
# with a Recovery the notification object processed" accepts it: `class=` on the SPECFAIL line); the minimised witness
# must in addition show the dropped request itself.
DROPPED = "recovery_request_dropped_while_disabled"


def _obs(line):
    """(operation words, env ints, events text) of an observed line, or None."""
    if " | " not in line:
        return None
    op, obs = line.split(" | ", 1)
    groups = [g.strip() for g in obs.split(" ; ")]
    if len(groups) != 5:
        return None
    return op.split(), [int(x) for x in groups[0].split()], groups[2]


def is_dropped_recovery_witness(lines):
    dropped = False
    cur = None      # type of the request the following "+ k" lines belong to
    for l in lines:
        o = _obs(l)
        if o is None:
            continue
        op, env, events = o
        if op[0] in ("N", "q"):
            cur = int(op[1])
        elif op[0] == "T":
            cur = None
        if cur == 64 and op[0] in ("N", "q", "+") and env[18] == 0 and (env[11] == 0 or env[12] == 0) and env[13] == 0 and events == "-":
            dropped = True
        elif dropped and any(ev.split(":")[0] in ("16", "64") and ev.split(":")[2] == "1" for ev in events.split(",") if ev != "-"):
            return True
    return False


# F-C03c: with interval 0 a notification of another type than Problem / Custom / Recovery that passes the notification-level
# filters resets no_more_notifications (notification.cpp:394-397), and the next timer run sends a reminder although a
# Problem has been sent for the incident.  Class decided by the driver (strict reading rejects, the code's reading
# accepts); the minimised witness must show, for one notification object with interval <= 0: a passed event of such a
# type, then a reminder, with no Recovery event in between.
REARMED = "interval0_rearmed_by_other_notification_type"
REARMING_TYPES = ("1", "2", "4", "16", "128", "256")


def is_interval0_rearm_witness(lines):
    intervals = []          # per notification object
    rearmed = {}
    for l in lines:
        w = l.split()
        if not w:
            continue
        if w[0] == "C" and " | " not in l:
            intervals = [int(w[2])]
            rearmed = {}
            continue
        if w[0] == "O" and " | " not in l:
            intervals.append(int(w[1]))
            continue
        o = _obs(l)
        if o is None:
            continue
        op, env, events = o
        k = int(op[1]) if op[0] == "+" else 0
        if k >= len(intervals) or intervals[k] > 0:
            continue
        for ev in events.split(","):
            if ev == "-":
                continue
            ty, rem, passed = ev.split(":")[:3]
            if ty == "64":
                rearmed[k] = False
            elif passed == "1" and ty in REARMING_TYPES:
                rearmed[k] = True
            elif ty == "32" and rem == "1" and rearmed.get(k):
                return True
    return False


CLASSIFIERS = {DROPPED: is_dropped_recovery_witness, REARMED: is_interval0_rearm_witness}


def classify(clause, lines, kv=None):
    return (kv or {}).get("class", "unclassified")


# Behaviour-preserving rewrites of the anchored code the check must stay silent on (patches: corpus/C03/negative_controls/*.diff,
# documentation only).  Each was compiled into a scratch object, linked into a scratch harness and run through
# correspondence() (corpus + quick generator, seed 1): 0 mismatches, 0 spec failures.
NEGATIVE_CONTROLS = [
    "nc1_reorder: BeginExecuteNotification - renamed local, reordered independent statements (number / last_notification / next), "
    "Recovery+Acknowledgement 'was notified' tests merged into one extracted lambda, checkable lookup moved",
    "nc2_logtext: every log message of notification.cpp, notificationcomponent.cpp, checkable-notification.cpp reworded, log level changed",
    "nc3_representation: users walked in reverse set order, direct users collected through a vector, last_notified_state_per_user written "
    "unconditionally (explicit 0 entries), notified_problem_users may hold a name twice, no_more_notifications only maintained where it is "
    "read (interval <= 0), notification objects visited in reverse order by SendNotifications and by the timer handler "
    "(alarmed under the first, literal attribute comparison - now compared as denotation, see Driver/C03.lean)",
    "nc4_guards: CheckNotificationUserFilters with early return instead of if/else, enable flag + user filters as one guard, times.end "
    "as nested ifs, the reminder handler's chain of `continue` guards as one condition, interval/no_more guard and the enable-flag guard "
    "of SendNotifications respelled",
    "nc5_helpers: file-static helpers of notificationcomponent.cpp renamed, comments / braces / blank lines / line breaks around the "
    "privately accessed NotificationTimerHandler and ApiListener::m_UpdatedObjectAuthority (its type is deduced by the harness)",
    "nc6_next_in_past: a never-used next_notification stamped 'a moment ago' instead of 0, due-test respelled, per-notification part of "
    "SendNotifications extracted into a lambda (alarmed under the literal comparison of next_notification - now clamped to the present)",
]
# Seeded changes re-run after the comparison was loosened; all still reported with a concrete failing input (clause in brackets).
SEEDED_CHANGES = [
    "timer guard ANDs instead of ORs the two pending-Problem bits [no_reminder_while_the_initial_problem_is_held_back]",
    "Recovery 'was notified before' test removed [recovery_ack_only_to_users_sent_a_problem_this_incident]",
    "user period skipped in CheckNotificationUserFilters [delivery_only_if_user_enabled_period_open_filters_admit]",
    "IsInDowntime() dropped from the reminder conditions [reminder_only_in_hard_unsuppressed_nonflapping_problem]",
    "no_more_notifications := true dropped [interval_zero_no_reminder_after_problem]",
    "notified_problem_users not cleared after a sent Recovery [recovery_ack_only_to_users_sent_a_problem_this_incident]",
    "next_notification := now + interval / 2 [reminder_at_least_interval_after_last_problem]",
    "seeded/C03-1..9 (round 3): all reported with a spec clause, see tools/seeded_auto.json",
    "seeded/C03-10..12 (round 4): C03-11 (force_next_notification survives a request that reaches no notification object) needed the "
    "checkable-level operations H (objects detached / attached) and the specification's own force bit "
    "[forced_only_if_force_next_notification_was_set]",
    "round 4, own mutations (_work/scratch/c03/mut_*.diff): HA `continue` of the timer handler removed "
    "[paused_notification_object_sends_nothing]; m_TypeFilterMap[\"Acknowledgement\"] widened "
    "[delivery_only_if_notification_type_filter_admits, delivery_only_if_user_enabled_period_open_filters_admit]; cold-start stash "
    "entry stored with force = true [forced_only_if_force_next_notification_was_set, timer part]",
]


class C03(StdCheck):
    prop = "C03"
    exhaustive = True
    required_theorems = ["delivery_only_if", "recovery_ack_recipients_partial", "recovery_ack_recipients_counterexample",
                         "dropped_recovery_request_is_a_noop", "no_duplicate_problem",
                         "reminder_only_in_hard_unsuppressed_problem", "reminder_spacing_partial",
                         "reminder_spacing_positive_interval", "reminder_spacing_rearmed", "reminder_interval0_counterexample",
                         "model_trace_meets_spec_partial", "model_trace_other_clauses", "model_trace_meets_spec_counterexample",
                         "forced_timer_notifications_are_owed", "forced_bypasses_user_filters", "timer_forced_only_from_stash", "force_is_one_shot", "force_reaches_next_request", "model_trace_meets_spec_positive_interval",
                         "checkable_trace_refines", "delivery_only_if_checkable", "model_ctrace_meets_spec_partial"]
    technique = ("Lean 4 proof (five independent checkers over the observed trace, each tied to the code's bookkeeping attributes by an "
                 "invariant; composition of BeginExecuteNotification calls incl. the replay of stashed requests; induction over operation "
                 "sequences); correspondence by exhaustive + random differential execution of the path OnNotificationsRequested -> started "
                 "NotificationComponent -> Checkable::SendNotifications -> BeginExecuteNotification (requests injected and requests raised by "
                 "the real ProcessCheckResult / FireSuppressedNotifications) and of NotificationTimerHandler (through the real 5 s timer and "
                 "directly) on real Notification (1-3 per checkable), User, UserGroup, TimePeriod, NotificationCommand, Downtime, Dependency, "
                 "Host/Service objects under the virtual clock; the checkable's side of a request (force_next_notification set by a requester, "
                 "consumed by every request; notification objects unregistered / registered later) is a second, checkable-level model "
                 "refined to the one-object model (checkable_trace_refines); filters are configured through `types` / `states` arrays "
                 "resolved by the real OnConfigLoaded / FilterArrayToInt in two thirds of the objects; timer runs on an HA node "
                 "(local Endpoint present) skip paused objects")
    level_text = ("Machine-checked theorems that for every configuration of a notification object (interval, times window, type/state "
                  "filters), every finite sequence of notification requests (all nine types, forced or not, during and after the cold-start "
                  "phase) and timer runs, under arbitrary environments at every step (state, state type, last hard state change, volatile, "
                  "reachability, downtime, acknowledgement, flapping, pending bits, period bits, enable flags, pause, object authority, any list "
                  "of users with arbitrary enable flags, periods and filters) the model's deliveries satisfy the executable specification of the "
                  "property's three sentences - without hypothesis for the first sentence (delivery_only_if), the duplicate clause "
                  "(no_duplicate_problem), the reminder conditions and spacing (reminder_only_in_hard_unsuppressed_problem, "
                  "reminder_spacing_positive_interval, reminder_spacing_rearmed) and every clause but two of the whole specification "
                  "(model_trace_other_clauses), incl. the new clause that the timer forces nothing of its own "
                  "(forced_timer_notifications_are_owed, timer_forced_only_from_stash) and the positive half of 'forced notifications bypass "
                  "every filter except the user's enable flag' (forced_bypasses_user_filters: a forced notification of a type without "
                  "per-user incident rules reaches every enabled attached user); at the level of the checkable - sequences of setForce / "
                  "attach / request / timer operations in which the force of a request is the model's flag, not an input - that every request "
                  "consumes the flag whether or not it reaches a notification object (force_is_one_shot), that the object's view with the "
                  "specification's own force bit (a setForce since the checkable's previous request) is a trace of the one-object model "
                  "(checkable_trace_refines), hence the first sentence without hypothesis (delivery_only_if_checkable) and the whole "
                  "specification under the two hypotheses (model_ctrace_meets_spec_partial); with the exact extra hypothesis for the two clauses the unchanged code violates "
                  "(recovery_ack_recipients_partial + _counterexample: F-C03b; reminder_spacing_partial + reminder_interval0_counterexample: "
                  "F-C03c; model_trace_meets_spec_partial + _counterexample); the model is tied to the code by running the real functions on "
                  "generated operation sequences and diffing events, executed commands and the bookkeeping attributes of every notification "
                  "object after every operation; the same specification is evaluated on the implementation's own trace")
    level_note = ("Trusted: Lean kernel (+ propext, Classical.choice, Quot.sound), harness/driver; checkable facts and period open/closed bits "
                  "are oracle inputs read from the implementation. NOT oracle inputs any more: (1) 'this request was forced' - the "
                  "specification derives it from the observed operations (F since the checkable's previous N / q request, seen by the object "
                  "or not), the implementation's force_next_notification is only compared with the model's flag (MISMATCH op=force); a forced "
                  "notification out of the timer must be owed to an earlier forced request that went unanswered; (2) the notification's and "
                  "the users' type / state filters - model and specification get the configured values of the case line, the objects get "
                  "them as integers, as name arrays or as mixed name / number arrays through OnConfigLoaded; (3) haSkip is exercised with a "
                  "real local Endpoint (bare ApiListener instance installed around timer runs). The model transcribes the code after the fix cec0506 for F-C03a (status "
                  "fixed). 'Current incident' is read as: it ends when the notification object sends a Recovery or discards it by its type "
                  "filter, AND when the checkable requests a Recovery that Checkable::SendNotifications drops because notifications are switched "
                  "off (the request type of every send operation is part of the observed trace) - the code keeps notified_problem_users / "
                  "last_notified_state_per_user across such a dropped request: known finding F-C03b, carried as _partial (hypothesis: no "
                  "Recovery request is dropped by the enable flags) + _counterexample; a Recovery merely withheld by the closed notification "
                  "period does not end the incident (it is re-sent later to exactly the incident's users). Interval 0 is read as stated "
                  "('none once a Problem has been sent for the incident' = until a Recovery is processed); the code re-arms the reminder on "
                  "every other passed type but Custom: known finding F-C03c, carried as _partial (hypothesis: no such event, vacuous for "
                  "interval > 0) + _counterexample, and the code's weaker reading is proved without hypothesis (reminder_spacing_rearmed). Both "
                  "findings are classified by the Lean driver, which runs the weaker reading beside the specification: only a failure the "
                  "weaker reading accepts, whose minimised witness shows the dropped request / the re-arming event, is a KNOWN-FINDING; every "
                  "other failure of the same clauses is a VIOLATION. The third sentence's 'neither suppressed' is read to cover a Problem that "
                  "is still held back: no reminder while the checkable's Problem bit is pending (after a suppression) and none in a timer run "
                  "after which the notification object still holds a Problem back (after a closed period) - clause "
                  "no_reminder_while_the_initial_problem_is_held_back. Reminder spacing is stated for stretches without a hard state change and "
                  "with a monotone clock (Q-C03); only unforced Problems start a spacing obligation.")
    trusted_base = [
        "modelled, not verified: command execution itself, cluster sync of the bookkeeping attributes; several notification objects per "
        "checkable are independent copies of the one-object model (the harness checks that independence on 1-3 real objects)",
        "labels that are not observable on the implementation: (a) the reminder flag of a Problem sent by the timer - the harness labels it "
        "non-reminder iff it replays a stashed request, or the object's Problem bit was pending before the run and it is the first unlabelled "
        "Problem of that run; (b) the force flag of an event - the harness writes it into the request's text field (which travels through "
        "the stash to OnNotificationSentToAllUsers; for stashed requests the code raised itself it labels the stash entries before the timer "
        "run), unlabelled events take force_next_notification as read before the call",
        "'no duplicate Problem for the same state' is read as: not for the state of the Problem the user was sent last (WARNING, CRITICAL, "
        "WARNING without a Recovery are three legitimate notifications)",
        "bookkeeping attributes are compared as their property-relevant denotation only: notified_problem_users as a set, "
        "last_notified_state_per_user as the function the code reads (missing = 0), next_notification clamped to the present, "
        "no_more_notifications only for interval <= 0, suppressed_notifications on its four bits, the stash as ordered (type, force) list; "
        "notification_number is not compared",
    ]
    assumptions = ["integer timestamps", "the period and the checkable facts do not change during one handler run",
                   "user ids are distinct (std::set of users)"]
    rule = ("corpus/C03/*.ops, then exhaustive (a'): every sequence of 4 (thorough: 5) operations over {force, detach objects, attach "
            "objects, Problem request, Custom request, notification period close, checkable notifications off, timer +60 s} x {service / host "
            "with two objects} x {type filter everything / Recovery only} x {objects attached / detached at the start}, followed by attach, "
            "Problem, Acknowledgement; random cases: 15% with objects that come and go (H), 20% on an HA node (J 1) with frequent authority "
            "changes; and exhaustive (a): every sequence of 4 (thorough: 5) operations over {Problem, Recovery, Acknowledgement request, "
            "timer +60 s, timer +1 s, hard CRITICAL, hard OK, notification period close/open, user 1 disable/enable, force} after a hard CRITICAL, "
            "followed by a fixed tail, x host (two notification objects) / service x interval {0, 60}; plus seeded random cases (10000 of <= 30 / "
            "thorough 100000 of <= 60 operations): 1-3 notification objects per checkable with random filters, times windows, intervals "
            "{0, 1, 60, 300} and periods, 1-4 users attached directly / via one or both of the object's user groups (overlapping membership) / "
            "not at all, user periods, all nine types, forced requests, state changes by setters or (35% of the cases) through the real "
            "ProcessCheckResult with max_check_attempts 1-3 (requests raised by the code, incl. flapping and FireSuppressedNotifications), "
            "downtime, acknowledgement, flapping, unreachability, pending bits, enable flags, pause, imminent check, cold-start phase (15% of "
            "the cases: requests stashed, queued behind the stash, replayed in order or dropped by a paused object), timer through the pump and "
            "directly at arbitrary virtual times. evaluations = (requests + timer operations) x notification objects; a case is non-trivial "
            "when a command was executed for at least one user (counted by the Lean driver)")

    def collect(self, res, lines, save, harness, driver):
        bad = [l for l in lines if l.startswith("BADLINE")]
        if bad:
            res.corr_failures.append(runner.Finding("corr", "protocol", bad[:5]))
        groups = {}
        for l in lines:
            if l.startswith("SPECFAIL"):
                kv = core.parse_kv(l)
                cl = kv.get("clause", "?")
                case = runner.extract_case(save, int(kv["case"]), self.case_start)
                pre = classify(cl, case, kv)
                groups.setdefault((cl, pre), []).append((case, l))
        res.extra.setdefault("spec_failure_groups", {})
        for (cl, pre), cases in sorted(groups.items()):
            res.extra["spec_failure_groups"][f"{cl}:{pre}"] = res.extra["spec_failure_groups"].get(f"{cl}:{pre}", 0) + len(cases)
            what = f"spec:{self.prop}:{cl}:{pre}"
            if any(f.what == what for f in res.spec_failures):
                continue
            case, l = min(cases, key=lambda c: len(c[0]))
            # (shrinking keeps the class the driver assigned, so that one root cause is not minimised into another)
            shown = self.shrink(harness, driver, case, "SPECFAIL", "clause=" + cl + (" class=" + pre if pre != "unclassified" else ""))
            res.spec_failures.append(runner.Finding("spec", what, shown, {"driver": l, "cases_in_group": len(cases)},
                                                    {"clause": cl, "pre_class": pre}))
        n = tried = 0
        seen_m = set()
        for l in lines:
            # (at most a handful of shrink attempts: thousands of mismatches usually minimise to the same few cases)
            if l.startswith("MISMATCH") and n < self.max_shrunk and tried < 2 * self.max_shrunk:
                tried += 1
                kv = core.parse_kv(l)
                case = runner.extract_case(save, int(kv["case"]), self.case_start)
                shown = self.shrink(harness, driver, case, "MISMATCH")
                key = tuple(shown)
                if key in seen_m:
                    continue
                seen_m.add(key)
                n += 1
                res.corr_failures.append(runner.Finding("corr", kv.get("op", "observation"), shown, {"driver": l}))

    def matches_known(self, entry, finding):
        fn = CLASSIFIERS.get(entry.get("classifier"))
        if fn is None or finding.kind != "spec":
            return False
        # the unminimised failing case must fall into the same class as the minimised one: shrinking must not
        # turn a different root cause into the recorded one
        if finding.classifier_data.get("pre_class") != entry.get("classifier"):
            return False
        try:
            return bool(fn(finding.case_lines))
        except (ValueError, IndexError, KeyError):
            return False


CHECK = C03()

"""C08 — time periods: interval algebra (AddSegment/RemoveSegment/UpdateRegion/IsInside) and calendar
(LegacyTimePeriod::ScriptFunc) under five time zones.  See DESIGN.md §2 C08."""
import json
import os

from vlib import core, runner
from .base import Check

TZS = ["UTC", "Europe/Berlin", "America/New_York", "Australia/Lord_Howe", "Asia/Kolkata"]
BAR = " | "


# Behaviour-preserving rewrites of the anchored code that the check must NOT report (documentation: the patches are
# kept under corpus/C08/negative_controls/ and are not applied by the check).  Each was built as a mutated object file in
# scratch, linked into a scratch harness and run through correspondence + reporting at seeds 1, 2, 3: exit 0, no
# VIOLATION.  "needed" says what in the check makes the control silent.
NEGATIVE_CONTROLS = [
    {"patch": "nc1_addsegment_adjacent_not_merged.diff",
     "what": "AddSegment 'extend to the right' uses `end > begin`: touching segments [0,5) [5,9) are kept apart instead of merged",
     "needed": "segment lists are compared in canonical form (canon_preserves_inside); alarmed before that was introduced"},
    {"patch": "nc2_timeperiod_refactor_guards_helper_logtext.diff",
     "what": "timeperiod.cpp: window bookkeeping extracted into a static helper (end before begin), locals renamed, other log texts, "
             "guards respelled (swapped operands, negated conjunctions, else-if chains, early returns, positive instead of `continue`) in "
             "AddSegment/RemoveSegment/PurgeSegments/Merge/UpdateRegion/IsInside, merge loops folded into a lambda",
     "needed": "nothing (only public entry points and their results are observed; no message text)"},
    {"patch": "nc3_timeperiod_front_insert_extra_field_no_inplace_edit.diff",
     "what": "other representation: new segments are inserted at the FRONT of the array and carry an extra `duration` field, RemoveSegment "
             "never edits a dictionary in place (fresh/cloned dictionaries), the clearing UpdateRegion widens the window directly instead of "
             "calling RemoveSegment on the empty list, PurgeSegments removes from the array in place",
     "needed": "canonical comparison; the harness reads only `begin`/`end`; every model step starts from the implementation's observed state"},
    {"patch": "nc4_timeperiod_segments_kept_sorted_and_coalesced.diff",
     "what": "AddSegment appends and then rebuilds the array sorted by begin with everything overlapping or touching coalesced",
     "needed": "canonical comparison"},
    {"patch": "nc5_legacy_refactor_renamed_helper_errortext_guards.diff",
     "what": "legacytimeperiod.cpp: static helper mktime_const renamed, date set-up extracted into a helper with reordered assignments, all "
             "exception and log texts changed, IsInTimeRange/ProcessTimeRangeRaw/ProcessTimeRanges/FindNextSegment guards respelled, "
             "FindNthWeekday as do/while",
     "needed": "nothing (exceptions are observed as 'threw or not', never by text)"},
    {"patch": "nc6_legacy_scriptfunc_entries_outer_days_inner.diff",
     "what": "ScriptFunc iterates entries in the outer and days in the inner loop (same segments, different order; hence differently merged lists)",
     "needed": "canonical comparison of the returned segments and of the resulting period"},
    {"patch": "nc7_timeperiod_update_function_asked_up_front.diff",
     "what": "UpdateRegion asks the update function before deciding that a non-clearing update has nothing to do (one extra, unused call)",
     "needed": "ALARMED first (what=update-args): the region the update function is asked for is now an oracle input that only has to "
               "cover the refreshed region; asking also when nothing is refreshed, or for more, is no difference"},
    {"patch": "nc8_legacy_scriptfunc_result_sorted_deduplicated.diff",
     "what": "ScriptFunc returns its segments sorted by begin and without exact duplicates (fresh array)",
     "needed": "canonical comparison"},
    {"patch": "nc9_timer_never_purges.diff",
     "what": "UpdateTimerHandler no longer calls PurgeSegments (the past is kept for ever)",
     "needed": "ALARMED first (what=timer-region): after a timer run only the answers from the cut-off on are compared (segments clipped at the cut-off, "
               "valid_begin only as far as it lies after it); the tick specification accepts any window begin <= now"},
    {"patch": "nc10_timer_keeps_two_hours_of_past.diff",
     "what": "UpdateTimerHandler purges at now - 7200 instead of now - 3600",
     "needed": "same as nc9"},
    {"patch": "nc11_timer_iterates_periods_in_reverse_order.diff",
     "what": "UpdateTimerHandler goes through the periods in reverse registration order",
     "needed": "ALARMED first (spec clause fed with the wrong merge inputs): the order of a timer run is taken from the order in which the update functions were "
               "actually asked, not from ConfigType::GetObjectsByType; for periods whose function was not asked the model returns the allowed set"},
]


class C08(Check):
    prop = "C08"
    required_theorems = ["canon_preserves_inside", "canon_eq_same_denotation", "addSeg_union", "addSeg_comm", "removeSeg_diff", "removeSeg_sound", "updateRegion_spec", "nested_forest_spec",
                         "outside_window_inside", "updateRegion_window", "start_spec", "purge_keeps_future", "timerTick_spec",
                         "refs_agree_partial", "start_order_counterexample", "nth_weekday_correct", "nth_weekday_agrees_with_spec",
                         "weekday_next_correct", "isInTimeRange_calendar_days", "tz_hypotheses_satisfiable", "day_loop_covers",
                         "scriptFunc_spec", "dayMatches_single", "dayMatches_weekday", "dayMatches_date", "dayMatches_nthWeekday",
                         "dayMatches_range", "dayMatches_monthDay", "dayMatches_nthWeekday_last", "rangeSeg_wrap_and_24h",
                         "update_asks_refreshed_region", "tick_asks_refreshed_region", "update_step_ok", "tickLoop_ok", "step_ok", "world_trace_spec", "world_trace_spec_from_config", "world_start_order_counterexample",
                         "inside_window_formula", "legacy_update_end_to_end", "weekday_table_matches_source", "month_table_matches_source", "weekday_numbers_are_tm_wday"]
    technique = ("Lean 4 proof (algebraic laws by induction over the segment list, lifted through the folds of Merge/UpdateRegion) over a "
                 "hand-written literal model; correspondence by exhaustive + random differential execution of real TimePeriod objects "
                 "(UpdateRegion, IsInside, includes/excludes by name) and of LegacyTimePeriod::ScriptFunc under five time zones")
    level_text = ("Machine-checked theorems (Lean 4 kernel): AddSegment yields exactly the union for every stored list; RemoveSegment removes exactly the "
                  "interval for every list of non-empty segments, shared boundaries included (full statement since the repair of F-C08a, commit 9b846ed); for "
                  "every period state, update inputs, region and clear flag the model's observation of UpdateRegion satisfies the executable specification "
                  "(window covers the region, outside the window inside, inside the window (own+includes)-excludes resp. (own-excludes)+includes) with no "
                  "hypothesis beyond non-empty segments; segment lists are compared in canonical form (canon_preserves_inside: equal canonical forms cover the same "
                  "instants, so a differently split list is no difference while a different union is); nested_forest_spec lifts this by mutual induction to include/exclude forests of any depth. "
                  "Activation and the 300 s timer are modelled: start_spec (TimePeriod::Start = clearing update of now..now+24h), purge_keeps_future (PurgeSegments changes no "
                  "answer from the cut-off on, for every state), timerTick_spec (one UpdateTimerHandler run - purge + non-clearing update from valid_end - satisfies the executable "
                  "tick specification for every state, inputs and clock value: window reaches from now to now+24h, formula at every instant from the cut-off on, nothing changes when "
                  "nothing is refreshed); update_asks_refreshed_region / tick_asks_refreshed_region: whenever a region is refreshed the update function is invoked for a region that covers it "
                  "(spec clause own_ranges_computed_for_the_refreshed_region, evaluated on the implementation's observed invocation). WHOLE-TRACE theorem world_trace_spec(_from_config): a world of any number of configured periods whose includes/excludes are looked up BY NAME "
                  "at the moment of each operation (dangling, cyclic, self-referring names allowed), and EVERY sequence of UpdateRegion calls, activations (Start) in any order and timer runs "
                  "in any iteration order at any clock values - every observation of the run satisfies the specification; the invariant (stored segments non-empty) is proved preserved by every "
                  "operation (step_ok), so the per-call hypotheses are discharged, not assumed. Agreement with the referenced periods THEMSELVES (their own current answers instead of the merged lists) holds only under the hypothesis "
                  "that they had been computed for the instant before they were merged (refs_agree_partial); start_order_counterexample is the model-level witness of F-C08c. "
                  "Calendar layer (token-level core; the string reader is tied by correspondence): for every entry list, window and time-zone parameter with "
                  "23-46 h days, scriptFunc_spec - an instant lies in a returned segment iff a local day of the window matches an entry's day definition and "
                  "the instant lies in one of its ranges on that day; day_loop_covers - the loop visits exactly the local days of the window, once, in order; "
                  "matching is characterised declaratively for weekday, calendar date, n-th weekday and day ranges with calendar-day stride "
                  "(isInTimeRange_calendar_days, full since the repair of F-C08b, commit 3f58d09), for month-day forms 'day N' / '<month> N' including negative N = counted back from the "
                  "last day of the month (dayMatches_monthDay), for the n-th LAST weekday (dayMatches_nthWeekday_last); rangeSeg_wrap_and_24h: a range that wraps or ends at 24:00 ends at that "
                  "local time of the NEXT calendar day (24:00 = next local midnight, also on 23/25-hour days). END-TO-END legacy_update_end_to_end: for one UpdateRegion of a period whose update function is ScriptFunc (fed the region the interval layer really "
                  "passes, begin clamped to valid_end), IsInside(t) at every instant of the window holds iff [some local day of the region matches an entry and t lies in one of its ranges, or t was "
                  "stored before outside the refreshed region] combined with the included/excluded lists by the prefer_includes formula - the two layers composed, returned segments proved non-empty (scriptFunc_wf). "
                  "The weekday and month name tables of the model (shared with the declarative "
                  "predicate) are proved equal, for every string, to the tables regenerated from LegacyTimePeriod::WeekdayFromString/MonthFromString of the checked tree (gen/c08_tables.py; "
                  "weekday_table_matches_source, month_table_matches_source) and to the calendar's numbering (weekday_numbers_are_tm_wday)")
    level_note = ("Trusted: Lean kernel (+ propext, Classical.choice, Quot.sound), sampled correspondence (exhaustive over the endpoint alphabet 0..5/0..6, random "
                  "nested forests, five time zones), harness/driver, libc mktime/localtime_r + tzdata (oracle input). The calendar theorems assume TzOk/TzDrift of the "
                  "time-zone parameter; the driver checks them on the probed offsets of every run. The weekday/month name tables are regenerated from the source at every run "
                  "(gen/c08_tables.py) and compared with the model's by theorem; the declarative calendar predicate calSpec is NOT proved equal to the model (sampled only).")
    trusted_base = [
        "modelled, not verified: libc mktime/localtime_r and the tz database enter the calendar model as the probed list of UTC-offset changes (oracle input per process)",
        "calendar layer (LegacyTimePeriod::ScriptFunc, ParseTimeSpec/ParseTimeRange/FindNthWeekday/IsInTimeRange/ProcessTimeRanges): literal model + declarative predicate, "
        "theorems are about the token-level core; the string reader (readSpecTok/readDayDef/readTimeRanges) and the month-day forms' closed meaning are tied by "
        "differential execution and by the independent declarative predicate calSpec evaluated on the implementation's output",
        "modelled and proved per period: TimePeriod::Start, PurgeSegments, one UpdateTimerHandler run; driven through the real Activate() and the real timer "
        "(Timer::VerifFireDue under the virtual clock). Oracle inputs of a timer run: whether the timer was due, the order in which the update functions were asked; "
        "when a referenced period whose update function was not asked was purged cannot be observed - the model returns the allowed set (both)",
        "after a timer run only the answers from the purge cut-off (now - 1 h) on are compared and specified: the window may reach back into the purged past "
        "(merging a straddling or not yet purged segment of a referenced period widens valid_begin again) where the period's own segments are gone",
        "the is_inside attribute as consumers read it (GetIsInside() and the reflected field, at the virtual clock - inside the window, at and beyond its end, on never-updated "
        "periods) is driven and held against the same clauses as IsInside(t)",
        "the declarative calendar predicate calSpec (closed forms on civil dates: daysInMonth, n-th weekday of a month) is evaluated on every ScriptFunc result of the runs but is NOT "
        "proved equal to the model for all inputs: that needs civilFromDays/daysFromCivil to be inverse bijections, which omega does not find; the closed forms that ARE proved "
        "(dayMatches_*) are stated on day numbers relative to the first day of the month",
        "not modelled: Convert::ToLong corner cases beyond sign+digits, range boundaries inside a skipped or repeated local hour (excluded by the property), "
        "FindNextTransition, ValidateRanges, fractional time stamps",
    ]
    assumptions = [
        "segment boundaries are integers (exact in binary64)",
        "only the covered set of a segment list is property-relevant: implementation and model lists are compared after canonicalisation (empty dropped, sorted, "
        "overlapping/touching merged), and each model step starts from the implementation's observed state",
        "updateRegion_spec / timerTick_spec take the included/excluded periods as the segment lists that were merged (world_trace_spec: as the lists found by name in the world at that moment); that those lists are what the referenced periods "
        "mean at the instant is NOT assumed any more but checked (clause inside_agrees_with_included_and_excluded_periods, calendar periods through Start/timer/UpdateRegion) "
        "- it fails on the unchanged tree when the referenced period is computed later (F-C08c, known finding)",
        "every stored and supplied segment has begin < end (ProcessTimeRanges skips empty ranges); the region satisfies begin <= end",
        "range boundaries are local times that exist exactly once; local midnight exists exactly once in the probed zones",
    ]

    # -------------------------------------------------------------------------------------------
    def generate(self):
        """Translator: the weekday / month name tables of lib/icinga/legacytimeperiod.cpp -> IcingaProofs/Gen/C08Tables.lean
        (theorems weekday_table_matches_source / month_table_matches_source compare them with the model's, for every string)."""
        import importlib.util
        gen = os.path.join(core.ROOT, "gen", "c08_tables.py")
        spec = importlib.util.spec_from_file_location("c08_tables", gen)
        mod = importlib.util.module_from_spec(spec)
        spec.loader.exec_module(mod)
        try:
            with core.Lock("lake"):
                self.name_tables = mod.generate(core.REPO, os.path.join(core.LEAN, "IcingaProofs", "Gen", "C08Tables.lean"))
        except mod.Lost as e:
            raise core.TieBroken("translator:C08:anchor-lost", str(e))

    def _run(self, harness_cmd, driver, save):
        hrc, herr, drc, lines = runner.pipeline(harness_cmd, [driver], save)
        if hrc != 0:
            raise core.TieBroken("harness:c08:run", f"rc={hrc}\n{herr}")
        if drc != 0:
            raise core.TieBroken("driver:c08:run", "\n".join(lines[-20:]))
        return lines

    def _replay_lines(self, harness, driver, lines, tag="shrink"):
        f = self.work(tag + ".ops")
        with open(f, "w") as fh:
            fh.write("\n".join(runner.strip_obs(l) for l in lines) + "\n")
        out = self._run([harness, "ops", f], driver, self.work(tag + ".out"))
        return out

    @staticmethod
    def _key(l):
        """Class of a SPECFAIL line: everything but positions and the witness instant."""
        kv = core.parse_kv(l)
        return tuple((k, kv.get(k, "")) for k in ("clause", "impl", "expected", "corr_ok", "stale_reference"))

    def _fails_same(self, harness, driver, lines, prefix, key=None):
        out = self._replay_lines(harness, driver, lines)
        for l in out:
            if l.startswith(prefix) and (key is None or self._key(l) == key):
                return True
        return False

    def _case_of(self, save, case_no):
        """(header lines [Z, C], operation lines) of one case of a harness output file."""
        z = None
        with open(save) as f:
            for line in f:
                if line.startswith("Z "):
                    z = line.rstrip("\n")
                    break
                if line.startswith("C "):
                    break
        case = runner.extract_case(save, case_no)
        hdr = ([z] if z else []) + case[:1]
        return hdr, case[1:]

    def _shrink(self, harness, driver, save, line, prefix):
        kv = core.parse_kv(line)
        hdr, ops = self._case_of(save, int(kv["case"]))
        key = self._key(line) if prefix == "SPECFAIL" else None
        if not self._fails_same(harness, driver, hdr + ops, prefix, key):
            return hdr + ops, []      # not reproducible in isolation: report unshrunk
        ops = runner.ddmin(hdr, ops, lambda ls: self._fails_same(harness, driver, ls, prefix, key))
        # shrink the instants of the last Q line to the single witness
        if ops and ops[-1].startswith("Q "):
            w = ops[-1].split()
            for t in w[2].split(","):
                cand = ops[:-1] + [f"Q {w[1]} {t}"]
                if self._fails_same(harness, driver, hdr + cand, prefix, key):
                    ops = cand
                    break
        out = self._replay_lines(harness, driver, hdr + ops)
        shown = open(self.work("shrink.out")).read().splitlines()
        return shown, [l for l in out if l.startswith(("SPECFAIL", "MISMATCH"))]

    def _collect(self, res, harness, driver, save, lines, totals):
        stats = {}
        for l in lines:
            if l.startswith("STATS"):
                for k, v in core.parse_kv(l).items():
                    stats[k] = int(v)
        if not stats:
            raise core.TieBroken("driver:c08:no-stats", "\n".join(lines[-20:]))
        for k, v in stats.items():
            totals[k] = totals.get(k, 0) + v
        bad = [l for l in lines if l.startswith("BADLINE")]
        if bad:
            res.corr_failures.append(runner.Finding("corr", "protocol", bad[:5]))
        # one representative per class of spec failure (the classes of known findings contain thousands of cases)
        seen = set(f.detail.get("key") for f in res.spec_failures)
        for l in lines:
            if l.startswith("SPECFAIL"):
                key = self._key(l)
                if key in seen:
                    continue
                seen.add(key)
                shown, drv = self._shrink(harness, driver, save, l, "SPECFAIL")
                kv = core.parse_kv(l)
                res.spec_failures.append(runner.Finding("spec", "spec:C08:" + kv["clause"] + ":" + ",".join(f"{k}={v}" for k, v in key[1:] if v not in ("", "-")),
                                                        shown, {"driver": drv or [l], "key": key, "first": l}))
        n = 0
        for l in lines:
            if l.startswith("MISMATCH") and n < 2 and len(res.corr_failures) < 4:
                n += 1
                shown, drv = self._shrink(harness, driver, save, l, "MISMATCH")
                res.corr_failures.append(runner.Finding("corr", core.parse_kv(l).get("what", "observation"), shown, {"driver": drv or [l]}))

    def correspondence(self, tier, seed, harness, driver):
        res = runner.Result()
        totals = {}
        # corpus first
        cdir = os.path.join(core.ROOT, "corpus", "C08")
        for name in sorted(os.listdir(cdir)) if os.path.isdir(cdir) else []:
            if name.endswith(".ops"):
                save = self.work("corpus_" + name + ".out")
                lines = self._run([harness, "ops", os.path.join(cdir, name)], driver, save)
                self._collect(res, harness, driver, save, lines, totals)
        # interval algebra
        save = self.work("alg.out")
        lines = self._run([harness, "gen", "--seed", str(seed), "--tier", tier, "--layer", "alg"], driver, save)
        self._collect(res, harness, driver, save, lines, totals)
        res.samples = runner.extract_case(save, 777) + ["..."] + runner.extract_case(save, totals["cases"] - 5)[:8]
        # calendar, one process per time zone
        for tz in TZS:
            save = self.work("cal_" + tz.replace("/", "_") + ".out")
            lines = self._run([harness, "gen", "--seed", str(seed), "--tier", tier, "--layer", "cal", "--tz", tz], driver, save)
            self._collect(res, harness, driver, save, lines, totals)
            if tz == "Europe/Berlin":
                res.samples += ["..."] + [l[:300] for l in runner.extract_case(save, 12)[:6]]
        res.stats = totals
        if totals.get("timer_runs", 0) == 0 or totals.get("timer_not_fired", 0) * 2 > totals.get("timer_runs", 0) or totals.get("starts", 0) == 0 \
                or totals.get("timer_purged", 0) == 0 or totals.get("refs_checked", 0) == 0 or totals.get("attribute_reads", 0) == 0:
            raise core.TieBroken("harness:c08:timer-not-driven", "the real Start / update timer was not exercised: " +
                                 " ".join(f"{k}={totals.get(k, 0)}" for k in ("starts", "timer_runs", "timer_not_fired", "timer_purged", "refs_checked", "attribute_reads")))
        res.evaluations = totals.get("updates", 0) + totals.get("queries", 0) + totals.get("scripts", 0)
        res.distinct_nontrivial = totals.get("nontrivial", 0)
        res.traces_validated = totals.get("cases", 0)
        res.exhaustive = True
        n = 6 if tier == "thorough" else 5
        res.rule = (f"interval algebra, exhaustive: every own list of 1-2 segments x one excluded segment x (no / one included segment) x prefer_includes over the "
                    f"endpoint alphabet 0..{n}, IsInside at every instant -1..{n + 1}; seeded random: 3 own x 2 excluded x 2 included segments over 0..6, nested "
                    "include/exclude forests of 2-6 periods (aligned and unaligned endpoints, missing names, non-clearing follow-up updates), IsInside at every "
                    "boundary +-1, window bounds +-1 and random instants; nested periods activated through the real Start (random definition and activation order, some left inactive) "
                    "and kept up to date by 1-5 runs of the real update timer with clock jumps of 5 min .. 14 h, IsInside at every boundary +-1, cut-off +-1, now+24h +-1, and the is_inside attribute (GetIsInside + reflected field) read at the virtual present, at the end of the window, beyond it and at boundaries. Calendar: per time zone (UTC, Europe/Berlin, America/New_York, Australia/Lord_Howe, "
                    "Asia/Kolkata) seeded ranges dictionaries over all specification forms, windows on DST-change days, month ends and leap days, directly through "
                    "ScriptFunc and through UpdateRegion with legacy includes/excludes; IsInside at every range boundary +-1 s and random instants; every day definition that names a "
                    "month or counts from the end of the month (every month x every weekday for the last / 5th weekday, month-day forms, ranges) over every day of one whole year per zone; "
                    "production shape: legacy periods with a legacy exclude/include started through Start at a random time of day (either order) and run through 2-7 timer runs on and around "
                    "every UTC-offset change 2024-2029 and on ordinary days. "
                    "evaluations = UpdateRegion + IsInside + ScriptFunc calls compared; a case is non-trivial when an include/exclude/calendar computation "
                    "changed the segment list (distinct by hash, counted by the Lean driver)")
        res.extra = {"time_zones": TZS}
        return res

    # -------------------------------------------------------------------------------------------
    def matches_known(self, entry, finding):
        """F-C08a (commit 9b846ed) and F-C08b (commit 3f58d09) are fixed.  F-C08c (known): a period merged a referenced
        period before that period had been computed for the instant concerned.  Narrow: only failures of the agreement
        clause, on a minimised witness whose every driver line is that clause with stale_reference=1 (the driver sets it
        only when the window a referenced period had when it was last merged did not contain the witness instant) and
        on which model and implementation agree.  The same clause with stale_reference=0, every other clause and every
        model/implementation difference remain violations."""
        if entry.get("classifier") != "c08_reference_merged_before_computed" or finding.kind != "spec":
            return False
        clause = "inside_agrees_with_included_and_excluded_periods"
        if not finding.what.startswith("spec:C08:" + clause + ":"):
            return False
        drv = finding.detail.get("driver") or []
        if not drv:
            return False
        for l in drv:
            kv = core.parse_kv(l)
            if not l.startswith("SPECFAIL") or kv.get("clause") != clause or kv.get("stale_reference") != "1" \
                    or kv.get("corr_ok") != "1":
                return False
        # the witness goes through the production entry points (Start / timer), not through a bare UpdateRegion
        ops = [l for l in finding.case_lines if l[:2] in ("A ", "T ", "U ")]
        return bool(ops) and all(l[:2] in ("A ", "T ") for l in ops)

    def replay(self, path, harness, driver):
        data = json.load(open(path))
        lines = [l for l in data.get("case", []) if l[:2] in ("Z ", "C ", "P ", "U ", "Q ", "K ", "A ", "T ", "G ")]
        out = self._replay_lines(harness, driver, lines, "replay")
        print(open(self.work("replay.out")).read())
        print("\n".join(out))
        return not any(l.startswith(("SPECFAIL", "MISMATCH", "BADLINE")) for l in out)


CHECK = C08()

"""C09 — check execution: exact argv from command+arguments+macros; exit/output mapping.  DESIGN.md §2 C09."""
import os
import subprocess

from vlib import core, runner
from .base import StdCheck


def _unhex(h):
    return b"" if h in ("-", "") else bytes.fromhex(h)


def macro_in_shell_quotes(template):
    """True when a `$` of the (string) command line template stands inside an open double-quote or
    backtick context: the administrator quoted a macro, the automatically added single quotes lose
    their meaning there."""
    sq = dq = bt = False
    i = 0
    while i < len(template):
        c = template[i:i + 1]
        if sq:
            if c == b"'":
                sq = False
        elif c == b"\\":
            i += 1
        elif c == b'"':
            dq = not dq
        elif c == b"`":
            bt = not bt
        elif c == b"'" and not dq:
            sq = True
        elif c == b"$" and (dq or bt):
            return True
        i += 1
    return False


def x_template(line):
    """The string command line template of an `X <svc> s:<hex> - …` line, else None."""
    w = runner.strip_obs(line).split()
    if len(w) >= 4 and w[0] == "X" and w[2].startswith("s:") and w[3] == "-":
        try:
            return _unhex(w[2][2:])
        except ValueError:
            return None
    return None


# Behaviour-preserving rewrites of the anchored code that must NOT raise an alarm (patches: corpus/C09/negative_controls/*.diff,
# documentation only; each was built as mutated object files in scratch, linked into a scratch harness and run through the full
# correspondence flow at quick tier: 0 mismatches, no spec failure outside the two recorded classes).
NEGATIVE_CONTROLS = [
    "nc1_internalresolve_refactor: InternalResolveMacros with renamed locals, the nested resolution extracted into a helper lambda, "
    "the 'only macro' test computed up front, the duplicated array check merged",
    "nc2_message_texts: other wording of all four exception texts and of the log lines in macroprocessor.cpp, of the "
    "'<Terminated with exit code ...>' marker (pluginchecktask.cpp) and of '<Timeout exceeded.>' / '<Terminated by signal ...>' "
    "(process.cpp) — ALARMED FIRST (error kind classified by message text; marker text transcribed in model and spec; timeout clause "
    "looked for the marker): now failure is compared against failure only, the marker is an oracle input read from the implementation, "
    "the timeout clause demands UNKNOWN + child gone",
    "nc3_reverse_iteration_extra_fields: ResolveArguments snapshots the dictionary and processes it back to front, CommandArgument "
    "carries two bookkeeping fields, std::sort with a lambda comparator — ALARMED FIRST (which of two failing arguments throws first "
    "changed the error kind): fixed by the same loosening; the order inside equal-`order` classes was already compared modulo permutation",
    "nc4_guard_spellings: AddArgumentHelper, the command wrapping and the missing/required guard of ResolveArguments as nested ifs / "
    "early returns / if-else instead of continue; ExitStatusToState as range tests; ParseCheckOutput with a flag and continue",
    "nc5_moved_definitions_renamed_statics: EscapeMacroShellArg and ProcessFinishedHandler (both reached through VH_ROB) moved within "
    "their files with added comments/braces/renamed locals; file-statics GetDefaultResolvers/l_EnvResolver renamed",
    "nc6_equivalent_escape_and_prepare: Utility::EscapeShellArg rewritten over std::string with reserve/append/continue; "
    "Process::PrepareCommand with emplace_back",
    "(run by the coordinator) std::stable_sort instead of std::sort in ResolveArguments",
    "nc7_set_if_true_compared_on_strings_only: ResolveArguments compares the resolved set_if with \"true\" only when it is a String (a Boolean "
    "true then goes through Convert::ToLong = 1: same truth value) — silent with Boolean/Number custom variables generated",
    "nc8_sigterm_to_process_group: at the timeout SIGTERM goes to the plugin's process group instead of the plugin alone (children die "
    "earlier; the property — killed, UNKNOWN — holds): silent incl. the plugin with a forked child and the forking shell",
    "nc9_short_macro_guard_default_resolvers: ResolveMacro's short-macro guard as two flat ifs WITH the continue kept (the harmless twin of "
    "seeded change C09-11), GetDefaultResolvers built with emplace_back, the array branch of ResolveMacros with a named empty callback, "
    "the timeout choice of PluginCheckTask::ScriptFunc as a conditional expression — applied to a scratch worktree and run through the whole "
    "check at quick tier: silent (clauses undefined_macro_missing, array_cmd_verbatim, timeout_unknown with check_timeout)",
]
# Breaking sibling changes written while extending the check (corpus/C09/sibling_changes/*.diff; each caught at quick tier, seed 1):
#   m2_wtermsig          WIFSIGNALED branch of Process::DoEvents reports WTERMSIG as exit status (SIGHUP = WARNING)   -> spec:signal_unknown
#   m3_env_escaped       `env` entries resolved with the shell-escape function (values arrive quoted)                  -> spec:env_verbatim
#   m6_array_cmd_escaped elements of an ARRAY command line resolved with the shell-escape function (values arrive quoted)   -> spec:array_cmd_verbatim
#   m5_num_value_skipped `value = 0` / `value = false` treated like an absent value (SkipValue)                         -> spec:argv_layout


class C09(StdCheck):
    prop = "C09"
    eval_key = "steps"
    max_shrunk = 2
    required_theorems = [
        "macro_terminates", "depth_bounded", "depth_bounded_array", "cycle_bounded", "fuel_monotone", "dollar_escape", "verbatim_insertion", "lone_macro_verbatim",
        "argv_shape_independent_of_values", "each_value_one_element", "optional_missing_drops_only_its_argument",
        "required_missing_fails", "skipped_argument_drops_only_itself", "set_if_guards_argument", "cached_path_equals_direct_partial", "cached_path_nested_missing_counterexample",
        "model_block_meets_layout_spec", "resolveArguments_meets_layout", "arguments_never_shell", "env_lone_macro_verbatim",
        "killed_plugin_unknown", "own_exit_code_kept", "shell_quote_roundtrip", "shell_quote_one_word", "shell_quote_needs_unquoted_counterexample",
        "exit_mapping", "output_split", "model_result_meets_spec", "model_string_command_meets_spec",
        "short_macro_ignores_environment", "undefined_short_macro_missing", "model_meets_undefined_clause", "required_undefined_fails",
        "env_macro_verbatim", "model_array_command_meets_spec", "verbatim_insertion_general", "failed_resolution_unknown_not_run", "missing_required_macro_check_unknown",
    ]
    technique = ("Lean 4 proof (round-trip law for the shell quoting over a model of sh word splitting, structural theorems about the "
                 "macro scanner and the argument emitter) about a hand-written executable model; correspondence by differential execution "
                 "of the real MacroProcessor::ResolveMacros/ResolveArguments on real Host/Service/CheckCommand objects, of "
                 "PluginCheckTask::ProcessFinishedHandler, and end to end through PluginCheckTask::ScriptFunc -> Process -> execvpe or "
                 "/bin/sh with a recording plugin")
    level_text = ("Machine-checked theorems (Lean 4 kernel): macro resolution is total and a nesting deeper than the limit is an error; no string "
                  "that mentions a custom variable on a reference cycle — of any length, through scalar values, array values or both, with "
                  "any surrounding text — resolves to a value (`cycle_bounded`); WHOLE TRACE for commands with an arguments dictionary: for every "
                  "lookup, command and dictionary the argument vector the model yields satisfies the trace clause `argv_layout` exactly as the "
                  "driver evaluates it (`resolveArguments_meets_layout`: the model's stable sort is the concatenation of the specification's "
                  "classes of equal `order`, each block is the specification's block, the result is never a shell line); a plugin that does not "
                  "end by its own exit (timeout expired whatever it does on SIGTERM, terminated by any signal, waitpid failure) is reported with "
                  "128 = UNKNOWN and only then (`killed_plugin_unknown`, `own_exit_code_kept`); an `env` entry that is one macro carries exactly "
                  "its value; macro values come from the levels only: the result of the whole resolver loop for a short macro is independent of the daemon's "
                  "environment (`short_macro_ignores_environment`), a short macro no level defines is missing (`undefined_short_macro_missing`) and for EVERY "
                  "string, level and escaping the model's missing report satisfies the trace clause `undefined_macro_missing` "
                  "(`model_meets_undefined_clause`; a required argument with such a value fails: `required_undefined_fails`); `$env.NAME$` yields the "
                  "variable verbatim, not rescanned (`env_macro_verbatim`); WHOLE array command line: one argv element per element of the array, each the "
                  "element's text with every scalar macro value verbatim, never a shell line, also with an arguments dictionary appended — trace clause "
                  "`array_cmd_verbatim` (`model_array_command_meets_spec`); `$$` yields `$`; the value of a non-recursive macro is inserted untouched whatever bytes it contains and is not rescanned; the number and "
                  "positions of the elements an argument contributes depend on its value only through its shape (scalar / array length) and every "
                  "value occupies exactly one element; a missing optional macro drops only its argument, a missing required one fails the "
                  "resolution; for EVERY byte string v, Utility::EscapeShellArg(v) read by the sh lexer model in unquoted state appends exactly v "
                  "to the current word (so a string command line whose macros stand in unquoted positions passes every value as one word); "
                  "exit codes map 0/1/2/3 and everything else to UNKNOWN; the per-line output/perfdata split. The model is tied to the code by "
                  "running the real functions on the same generated inputs (values biased to quotes, blanks, newlines, $, backslashes, globs, "
                  "shell operators, UTF-8) and real process spawns incl. /bin/sh and the timeout kill; the specification predicates are evaluated "
                  "on the implementation's own observations")
    level_note = ("Trusted: Lean kernel (+ propext, Classical.choice, Quot.sound), sampled correspondence, harness/driver. Parameter, validated by real "
                  "spawns only: /bin/sh word splitting (model restricted to unquoted text, backslash escapes, single and double quotes). Not compared "
                  "(not part of the property): which exception a failing resolution throws and every message/marker wording (the marker "
                  "appended for exit codes above 3 is an oracle input read from the implementation). Not "
                  "modelled: fractional numbers/dictionaries/functions as macro values, typed elements inside arrays, nested arrays, runtime macros "
                  "($host.state$, $icinga.uptime$, …: the default resolvers are modelled as global `Vars` + the daemon's environment, `V i` / `U` lines), "
                  "MacroResolver::OverrideMacros, set_if values beyond true/false/integers of up to 9 digits, std::sort instability beyond "
                  "16 equal-order arguments (compared modulo permutation), PluginNotificationTask/PluginEventTask and the cluster ExecuteCommand "
                  "callers of ResolveArguments. Modelled as a function of what waitpid reported (not of time): the exit status Process::DoEvents "
                  "derives for a timed-out or signalled plugin; process creation, pipes and the delivery of SIGTERM/SIGKILL are exercised only "
                  "(observed: state, and that the plugin — or the child it forked, or the grandchild of a forking /bin/sh — is gone).")
    trusted_base = [
        "modelled, not verified: MacroProcessor::ResolveMacro/InternalResolveMacros/ResolveMacros/ResolveArguments/AddArgumentHelper/"
        "EscapeMacroShellArg, Utility::EscapeShellArg/Join, Process::PrepareCommand, PluginUtility::ExitStatusToState/ParseCheckOutput/"
        "SplitPerfdata, PluginCheckTask::ProcessFinishedHandler, the failure branch of PluginUtility::ExecuteCommand, the choice of the timeout in PluginCheckTask::ScriptFunc (check_timeout of the "
        "checkable over timeout of the command), GetDefaultResolvers/EnvResolver (global Vars, getenv; ResolveShortMacros=false), the `env` loop of PluginUtility::ExecuteCommand, the exit-status derivation of "
        "Process::DoEvents (WIFEXITED / m_SentSigterm / WIFSIGNALED), Value::operator String for Boolean and integer-valued Number",
        "parameter: POSIX sh word splitting (`shWords`: blanks, backslash escapes, '…', \"…\" without live characters); every generated sh line is "
        "executed by the real /bin/sh and its argv diffed against the model",
        "exercised only, no theorem: spawn helper, execvpe, pipes, delivery of SIGTERM at the timeout and of SIGKILL to the process group at "
        "1.1 x timeout (nine or more real timeouts per run, incl. a plugin with a forked child and a forking shell; real deaths by "
        "SIGHUP/SIGINT/SIGQUIT/SIGSEGV/…)",
    ]
    assumptions = [
        "macro values are Empty, strings, Booleans, integer-valued Numbers (|n| < 10^9 where used as set_if) or arrays of strings; valid UTF-8 "
        "without NUL (the spawn helper transports argv and environment as JSON)",
        "no resolver level is called `env` or `icinga`; names of variables put into the daemon's environment contain no `=`",
        "/bin/sh is a POSIX shell (dash on the build host); the first word of a command line contains no `=`",
        "the `arguments` dictionary iterates in bytewise key order (std::map<String, …>); at most 16 arguments (libstdc++ insertion sort is stable)",
    ]
    rule = ("exhaustive: ExitStatusToState on -3..300; custom-variable chains of depth 10..18 from entry levels 0..3 (recursion limit), self and "
            "mutual recursion, cycles in which every hop is an array; real timeouts (1 s) with plugins that die on SIGTERM, trap it and exit "
            "0/1/2/3, ignore it, or fork a child that holds the output pipe (the child must be gone), and a string command line whose /bin/sh forks; "
            "plugins that die by signals 1, 2, 3 and a seed-dependent third of 6, 9, 10, 11, 13, 15 (array and string command lines). Every operation runs in a forked child: a crash or hang is a per-operation `no_crash` failure. seeded random: cases of custom variables on service/host/command (strings with `$$`, nested macro references, "
            "malformed `$`, arrays, Empty, Booleans, integers, a variable named \"\", variables named like the attributes address/notes/display_name), "
            "global `Vars` (icinga level), 1..3 variables in the daemon's own environment named like the generator's missing macros and custom variables "
            "(nx, ny, v0, …: $nx$ must stay missing, $env.nx$ reads it), attributes (address, display_name, notes, …: arbitrary bytes incl. lone `$`), "
            "each followed by ResolveMacros calls (levels 0..15, with/without shell escaping) and ResolveArguments calls (array / string command "
            "lines, dictionaries of 0..5 arguments with key, value, set_if, required, skip_key, repeat_key, order ties, separator incl. \"\", Boolean/Number values and set_if); "
            "plugin outputs through ProcessFinishedHandler; sh lines through the real /bin/sh; end-to-end checks through "
            "PluginCheckTask::ScriptFunc with the recording plugin (array and string command lines, exit statuses 0..255, 0..2 `env` entries of the "
            "command — macro strings — whose values the plugin reads back from its environment: clause env_verbatim, direct and cached path); string command "
            "lines with a macro inside double quotes (Q-C09) for a list of hostile values; real timeouts incl. check_timeout of the checkable over the "
            "command's timeout in both directions (60/1 killed, 1/60 not killed). evaluations = operations compared; "
            "a case is non-trivial when it resolved a macro, produced an error, split output or ran a process (distinct by hash of the "
            "operation line, counted by the Lean driver)")

    def build_harness(self):
        h = core.build_harness("c09")
        src = os.path.join(core.HARNESS, "c09_plugin.c")
        out = self.work("plugin")
        if not os.path.exists(out) or os.path.getmtime(out) < os.path.getmtime(src):
            p = subprocess.run(["cc", "-O1", "-o", out + ".tmp", src], stdout=subprocess.PIPE, stderr=subprocess.STDOUT, text=True)
            if p.returncode != 0:
                raise core.TieBroken("harness:c09:plugin", p.stdout[-3000:])
            os.replace(out + ".tmp", out)
        os.environ["C09_PLUGIN"] = out
        return h

    @staticmethod
    def _line(path, n):
        with open(path, errors="replace") as f:
            for i, line in enumerate(f, 1):
                if i == n:
                    return line.rstrip("\n")
        return ""

    def _driver_lines(self, harness_lines):
        """SPECFAIL/MISMATCH lines of the driver on an already executed (harness output) case."""
        f = self.work("classify.out")
        with open(f, "w") as fh:
            fh.write("\n".join(harness_lines) + "\n")
        with open(f) as fh:
            p = subprocess.run([self._driver], stdin=fh, stdout=subprocess.PIPE, stderr=subprocess.PIPE, text=True, errors="replace")
        return [l for l in p.stdout.splitlines() if l.startswith(("SPECFAIL", "MISMATCH"))]

    def collect(self, res, lines, save, harness, driver):
        self._driver = driver
        bad = [l for l in lines if l.startswith("BADLINE")]
        if bad:
            res.corr_failures.append(runner.Finding("corr", "protocol", bad[:5]))
        seen = {}
        for l in lines:
            if not l.startswith("SPECFAIL"):
                continue
            kv = core.parse_kv(l)
            cl = kv.get("clause", "?")
            # classify the FAILING line itself before any shrinking.  Recorded classes: (a) a string command line with a macro inside
            # an open double-quote/backtick context (decided here from the template), (b) a divergence between the cached and the
            # direct path that the model attributes to a missing NESTED macro (decided by the driver: class=nested_missing only when
            # the model reproduces both passes).  Everything else keeps the bare clause name and is never matched as known.
            cls = ""
            if cl == "string_cmd_verbatim":
                tmpl = x_template(self._line(save, int(kv["line"])))
                if tmpl is not None and macro_in_shell_quotes(tmpl):
                    cls = "macro_in_shell_quotes"
            elif cl == "cached_equals_direct" and kv.get("class") == "nested_missing":
                cls = "nested_missing"
            key = (cl, cls)
            seen.setdefault(key, 0)
            if seen[key] >= self.max_shrunk:
                continue
            seen[key] += 1
            case = runner.extract_case(save, int(kv["case"]), self.case_start)
            sub = "clause=" + cl + (" class=nested_missing" if cls == "nested_missing" else "")
            shown = self.shrink(harness, driver, case, "SPECFAIL", sub)
            what = f"spec:{self.prop}:{cl}" + (":" + cls if cls else "")
            res.spec_failures.append(runner.Finding("spec", what, shown, {"driver": l},
                                                    {"clause": cl, "pre_class": cls, "post": self._driver_lines(shown)}))
        n = tried_m = 0
        seen_m = set()
        for l in lines:
            if l.startswith("MISMATCH") and n < 3 and tried_m < 6:
                tried_m += 1   # bounded number of shrink attempts (many mismatches minimise to the same witness)
                kv = core.parse_kv(l)
                case = runner.extract_case(save, int(kv["case"]), self.case_start)
                shown = self.shrink(harness, driver, case, "MISMATCH")
                key = tuple(shown)
                if key in seen_m:
                    continue
                seen_m.add(key)
                n += 1
                res.corr_failures.append(runner.Finding("corr", kv.get("op", "?") + ":" + kv.get("kind", "observation"), shown, {"driver": l}))

    def matches_known(self, entry, finding):
        if finding.kind != "spec":
            return False
        cd = finding.classifier_data
        post = cd.get("post", [])
        if entry.get("classifier") == "macro_in_shell_quotes":
            if cd.get("clause") != "string_cmd_verbatim" or cd.get("pre_class") != "macro_in_shell_quotes":
                return False
            # the minimised case as well: every string command line left in it quotes a macro, and nothing but that clause fails
            xs = [x_template(l) for l in finding.case_lines if l.startswith("X ")]
            if not xs or any(t is None or not macro_in_shell_quotes(t) for t in xs):
                return False
            return bool(post) and all(l.startswith("SPECFAIL") and "clause=string_cmd_verbatim" in l for l in post)
        if entry.get("classifier") == "cached_nested_missing":
            if cd.get("clause") != "cached_equals_direct" or cd.get("pre_class") != "nested_missing":
                return False
            # the minimised case: nothing fails but that clause in that class, and model and implementation agree on both passes
            return bool(post) and all(l.startswith("SPECFAIL") and "clause=cached_equals_direct class=nested_missing" in l for l in post)
        return False


CHECK = C09()

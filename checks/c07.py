"""C07 — reachability follows the dependency graph; dependency cycles are rejected.  See DESIGN.md §2 C07."""
import concurrent.futures
import glob
import json
import os
import subprocess

from vlib import core, runner
from .base import Check

OP_PREFIXES = ("C ", "N ", "D ", "X ", "S ", "T ", "L", "Q", "A ", "R ", "G", "V")


# Harmless rewrites of the anchored code the check was run against (mutated object files in a scratch copy of /repo,
# full ./check flow, exit 0, no VIOLATION).  Patches: corpus/C07/negative_controls/*.diff (documentation, not applied here).
NEGATIVE_CONTROLS = [
    ("NC1", "IsReachable: host-hard-down test extracted into a helper and moved after the group loop, locals renamed"),
    ("NC2", "different wording of the cycle error (only the words 'Dependency cycle' kept) and of all log messages"),
    ("NC3", "iteration orders: GetDependenciesForChild/GetDependencyGroups reversed, cycle checker visits extra -> registered -> implicit edges, std::map for its nodes"),
    ("NC4", "representation: ignore_soft_states stored inverted in the composite key, emptied groups stay in the registry until the next Unregister "
            "(13k group/registry-size observations differ from the registry model: counted as `repr_differ`, never an alarm)"),
    ("NC5", "IsAvailable as positive guards + switch, GetState with `!reachable`, `!=` and ternaries"),
    ("NC6", "private members renamed (DependencyGroup::m_Members/m_Mutex, Service::m_Host), comments moved: the harness uses public API only"),
]
# Breaking changes the check is known to catch (corpus/C07/seeded_changes/*.diff), each with a concrete replay.
SEEDED_CHANGES_CAUGHT = [
    ("M1", "IsAvailable without the never-checked branch", "reachable_iff_*"),
    ("M2", "redundancy group unreachable when `reachable < size`", "reachable_iff_*"),
    ("M3", "cycle checker skips the implicit service->host edge", "cycle_is_rejected"),
    ("M4", "host hard-down test also for check execution", "reachable_iff_check_execution"),
    ("M5", "RemoveDependency keeps the removed dependency in the re-registered group", "implementation_aborted (VERIFY) / graph_equals_live_set"),
    ("M6", "Unregister leaves the child's dependencies in the old group", "implementation_aborted / graph_equals_live_set"),
    ("M7", "group key as plain String: parent name vs redundancy-group name collide", "reachable_iff_* (name collisions in the generators)"),
    ("C07-7", "DependencyGroup::Hash/Equal without the redundancy group name: a plain group and a redundancy group with the same composite keys merge",
     "reachable_iff_* / graph_equals_live_set / edges_equal_live_set / implementation_aborted (generator 'shared': identical key sets, different grouping)"),
    ("S1", "Dependency::Stop skips RemoveReverseDependency for runtime removals (self-test)", "edges_equal_live_set"),
    ("S2", "Dependency::GetPeriod() answers nullptr (self-test)", "reachable_iff_* (closed periods follow from the D/T lines, the object's answer is only compared)"),
    ("S3", "Dependency::OnConfigLoaded: default filter of a service parent is OK only (self-test)", "reachable_iff_state (generator 'def': attributes left unset)"),
    ("S4", "dependency.ti: disable_notifications defaults to false (self-test)", "reachable_iff_notification (generator 'def'); config_defaults_match_source breaks as well"),
    ("C07-12", "BeforeOnAllConfigLoadedHandler adds and searches in one pass: cycles with two edges of one batch are accepted",
     "cycle_is_rejected (before: the evaluation of the accepted cyclic graph fanned out below the 256-level guard and the configuration process "
     "timed out = broken tie; now a Q has a wall-clock budget -> 'E evaluation-timeout' -> clause evaluation_terminates, and the L line is judged first)"),
]


class C07(Check):
    prop = "C07"
    required_theorems = ["available_spec", "available_self", "group_state_spec", "reachable_spec",
                         "too_deep_unreachable", "model_query_meets_spec", "ranked_excludes_cycles",
                         "cycle_check_sound", "initial_load_sound", "cycle_check_complete", "cycle_check_iff_acyclic", "model_load_meets_spec",
                         "self_dependency_rejected", "terminates_on_accepted",
                         "acyclic_iff_no_closed_walk", "no_cycle_iff_ranked", "cycle_check_iff_no_cycle",
                         "runtime_add_refused_unchanged", "runtime_adds_stay_acyclic", "model_runtime_add_meets_spec",
                         "registry_refines_set", "fresh_load_spec", "runtime_equals_fresh_load",
                         "history_step_meets_spec", "history_meets_spec", "history_stays_acyclic",
                         "reachable_via_registry", "reachable_via_fresh_load", "registry_query_meets_spec", "parents_via_registry", "history_queries_via_registry",
                         "unset_states_spec", "unset_flags_spec",
                         "recursion_limit_matches_source", "state_filter_bits_match_source", "config_defaults_match_source"]
    technique = ("Lean 4 proof (decision logic stated outright, fixed-point uniqueness by induction on a ranking, DFS invariant "
                 "'finished list is topologically sorted') over a hand-written model; correspondence by exhaustive + random differential "
                 "execution of Checkable::IsReachable on real Host/Service/Dependency objects and of the config-load path "
                 "(ConfigCompiler -> CommitItems -> ActivateItems) for cycle acceptance/rejection")
    level_text = ("Machine-checked theorems (Lean 4 kernel): Dependency::IsAvailable is the property's five-way disjunction per aspect; "
                  "DependencyGroup::GetState is 'all' outside / 'at least one' inside a redundancy group; on every acyclic dependency graph "
                  "at most 256 levels deep Checkable::IsReachable is the unique solution of the property's 'reachable exactly when' equation "
                  "(no bound on graph size); the recursion-limit branch answers unreachable; the DependencyCycleChecker accepts a batch only if "
                  "registered graph + batch + implicit service->host edges are acyclic (given the registered graph is), accepts every acyclic one "
                  "(accepted <=> acyclic w.r.t. a DFS-independent peeling decision, for n checkables with all edges among them), "
                  "rejects self-dependencies, and on accepted configurations IsReachable's recursion depth is bounded independently of the limit; "
                  "accepted <=> no non-empty closed walk (standard cycle definition, pigeonhole formalised); a runtime addition closing a cycle is refused "
                  "and leaves the graph unchanged; for every sequence of runtime AddDependency/RemoveDependency the per-child views equal the live "
                  "dependencies grouped by key and the registry equals what a fresh load of the live set builds; WHOLE HISTORIES (history_meets_spec): for every "
                  "set of checkables and every sequence of loads / runtime creations (any batches, cyclic ones refused), removals, state changes, period "
                  "changes, queries and edge read-outs from the empty configuration, the specification predicate over the recorded history finds no "
                  "violated clause - acyclicity of the registered graph is an invariant established by the cycle checker (history_stays_acyclic), not a hypothesis; "
                  "GetParents/GetChildren/GetReverseDependencies equal the live set after every history. "
                  "REGISTRY -> REACHABILITY (reachable_via_registry, reachable_via_fresh_load, registry_query_meets_spec, parents_via_registry): IsReachable "
                  "evaluated the way the code walks it - over the group objects held in m_DependencyGroups, IsRedundancyGroup() from the group's own name, "
                  "GetDependenciesForChild(this) from the shared registry entry - equals isReachable on the live set after EVERY runtime add/remove sequence "
                  "and after a fresh load, for all states/aspects/checkables; GetParents() from the groups' key sets equals the live parents. "
                  "UNSET ATTRIBUTES (unset_states_spec, unset_flags_spec): a dependency configured without states / ignore_soft_states / disable_checks / "
                  "disable_notifications is resolved by the model as Dependency::OnConfigLoaded and dependency.ti do (DepDecl.resolve), with the availability "
                  "it yields stated outright. SOURCE CONSTANTS (recursion_limit_matches_source, state_filter_bits_match_source, config_defaults_match_source): "
                  "the recursion limit, the six state filter bits, OnConfigLoaded's two default filters and the three flag defaults are regenerated from the "
                  "checked tree by gen/c07_consts.py on every run and proved equal to the model's. "
                  "The model is tied to the code by running the real IsReachable for all checkables x 3 aspects on exhaustive small graphs x state "
                  "assignments, random graphs with runtime add/remove, chains around the 256 limit, and by loading generated configurations "
                  "(one fresh process each) and comparing accepted/'Dependency cycle' with the model; the same specification predicates "
                  "(fixed-point equation, live dependency set, cycle => rejected, refused => unchanged, parents/children/reverse dependencies = live set) are "
                  "evaluated on the implementation's own observations, step by step with the same `specObs` the whole-history theorem is about")
    level_note = ("Trusted: Lean kernel (+ propext, Classical.choice, Quot.sound), the model's correspondence being sampled, harness/driver. "
                  "Compared observables are the denotation the property names (reachability per aspect, live dependencies per checkable, live dependencies "
                  "grouped by redundancy group, GetParents/GetChildren/GetReverseDependencies per checkable, accepted/'Dependency cycle'); group objects, keys, totals "
                  "and registry size are statistics (repr_agree/repr_differ). Whether a dependency's period is closed is derived from the D/T lines (which pool "
                  "period the dependency names, whether that period was set inside/outside); the value read from the Dependency object is compared, not trusted. "
                  "The reachability equation is evaluated inside the property's scope only (queryInScope: candidate ranking certifies acyclic and <= 256 levels); "
                  "an implementation that dies (VERIFY, segmentation fault) on a generated operation sequence is reported with that sequence; "
                  "a query (IsReachable of all checkables x 3 aspects) that does not come back within 10 s wall clock (C07_Q_BUDGET) ends the case with "
                  "'E evaluation-timeout' and is reported under clause evaluation_terminates ('so evaluation always terminates'); after an accepted cyclic "
                  "load/addition (clause cycle_is_rejected) the rest of the case is not followed (the graph is outside the property's scope). "
                  "Every query and every GetParents read-out is ALSO answered through the registry model's group objects (isReachableR / parentsR, kept in step "
                  "with all D/X/L/A/R lines) and compared with the implementation (MISMATCH query-registry / parents-registry). "
                  "cfg-route D/A lines may leave states / ignore_soft_states / disable_checks / disable_notifications unset ('u'): the harness omits the "
                  "attribute, the model resolves the default (generator 'def': all-unset and one-unset dependencies x all 16 parent states, host and service "
                  "parents, loaded and created at runtime, plus seeded random mixes). "
                  "Negative controls NC1-NC6 (see NEGATIVE_CONTROLS) pass; the harness uses public API only. "
                  "Acyclicity is expressed by a ranking certificate; a ranking excludes every cycle (proved) and exists whenever peeling empties the graph (proved). "
                  "The registry (Register/Unregister/AddDependency/RemoveDependency/PushDependencyGroupsToRegistry) is modelled and proved equal to a "
                  "fresh load after every runtime sequence (registry_refines_set, runtime_equals_fresh_load); a group pointer is represented by the "
                  "group's identity. Not modelled: OnReachabilityChanged/OnChildRegistered/OnChildRemoved fan-out, Icinga DB identifiers, the text of the cycle error.")
    trusted_base = [
        "modelled, not verified: Dependency::IsAvailable, DependencyGroup::GetState, Checkable::IsReachable, DependencyCycleChecker/"
        "BeforeOnAllConfigLoadedHandler, OnAllConfigLoaded/Stop (reverse dependencies), per-checkable group keys and registry size; "
        "TimePeriod::IsInside itself is C08's matter: the harness sets each pool period inside/outside and the model takes that setting",
        "history model (hstep/hrun) evaluates queries and GetParents on the live set; that the code's evaluation through the registry's group objects "
        "gives the same answers is proved for every runtime AddDependency/RemoveDependency sequence and for fresh loads (reachable_via_registry, "
        "reachable_via_fresh_load, parents_via_registry), but the two models are composed by the driver (both run on every case), not by one theorem "
        "over HOp histories (that needs fresh dependency ids per batch as a hypothesis)",
        "translator gen/c07_consts.py (regular expressions over comment-stripped source: one literal definition of l_MaxDependencyRecursionLevel used in "
        "IsReachable, the StateFilter* enumerators, the if/else of Dependency::OnConfigLoaded feeding FilterArrayToInt(GetStates(), ...), the default "
        "blocks of dependency.ti); an unrecognised shape is a broken tie (translator:C07:anchor-lost), never a silent pass",
        "`Ranked`/`RankedS` hypotheses are read as 'acyclic': `ranked_excludes_cycles` (ranking => no cycle) and "
        "`cycle_check_iff_acyclic` (peeling empties the graph <=> accepted) are proved; 'no cycle => peeling empties' is the classical step not formalised",
    ]
    assumptions = [
        "parent states are set with SetStateRaw/SetStateType/SetLastCheckResult as test/icinga-dependencies.cpp does",
        "the harness's pool TimePeriods are inside/outside at the fixed virtual time as requested; their value is nevertheless read back from the implementation",
        "one fresh process per generated configuration for the config-load path (ConfigItem/ApplyRule are process-global)",
    ]

    # ------------------------------------------------------------------------------------------
    def generate(self):
        """Translator gen/c07_consts.py: recursion limit, state filter bits, OnConfigLoaded's default filters and the
        dependency.ti flag defaults of the checked tree -> IcingaProofs/Gen/DepConsts.lean (theorems
        recursion_limit_matches_source, state_filter_bits_match_source, config_defaults_match_source compare them with
        the model's constants)."""
        import importlib.util
        gen = os.path.join(core.ROOT, "gen", "c07_consts.py")
        spec = importlib.util.spec_from_file_location("c07_consts", gen)
        mod = importlib.util.module_from_spec(spec)
        spec.loader.exec_module(mod)
        try:
            with core.Lock("lake"):
                self.source_consts = mod.generate(core.REPO, os.path.join(core.LEAN, "IcingaProofs", "Gen", "DepConsts.lean"))
        except mod.Lost as e:
            raise core.TieBroken("translator:C07:anchor-lost", str(e))

    def _drive(self, path, driver):
        with open(path) as f:
            dp = subprocess.run([driver], stdin=f, stdout=subprocess.PIPE, stderr=subprocess.PIPE, text=True, errors="replace")
        if dp.returncode != 0:
            raise core.TieBroken("driver:c07:run", dp.stdout[-2000:] + dp.stderr[-2000:])
        return dp.stdout.splitlines()

    def _harness_ops(self, harness, ops_file, out_file, timeout=600):
        with open(out_file, "w") as f:
            hp = subprocess.run([harness, "ops", ops_file], stdout=f, stderr=subprocess.PIPE, timeout=timeout)
        return hp.returncode, hp.stderr.decode(errors="replace")[-2000:]

    def _fails(self, harness, driver, lines, want_prefix):
        f = self.work("shrink.ops")
        with open(f, "w") as fh:
            fh.write("\n".join(runner.strip_obs(l) for l in lines) + "\n")
        try:
            rc, _ = self._harness_ops(harness, f, self.work("shrink.out"), timeout=120)
        except subprocess.TimeoutExpired:
            return False
        if rc != 0:
            return False
        out = self._drive(self.work("shrink.out"), driver)
        if any(l.startswith("BADLINE") for l in out):
            return False
        return any(l.startswith(want_prefix) for l in out)

    def _aborts(self, harness, lines):
        f = self.work("abort.ops")
        with open(f, "w") as fh:
            fh.write("\n".join(runner.strip_obs(l) for l in lines) + "\n")
        try:
            rc, _ = self._harness_ops(harness, f, self.work("abort.out"), timeout=120)
        except subprocess.TimeoutExpired:
            return False
        return rc < 0

    def _abort_finding(self, res, harness, case_lines, rc):
        """The real code died (signal) while executing a concrete, valid operation sequence: that sequence is
        the failing input (the graph is certainly not `equal to a fresh load` any more)."""
        hdr, ops = case_lines[:1], case_lines[1:]
        if self._aborts(harness, hdr + ops):
            ops = runner.ddmin(hdr, ops, lambda ls: self._aborts(harness, ls))
            self._aborts(harness, hdr + ops)
            shown = [runner.strip_obs(l) for l in hdr + ops] + ["# implementation output before it died:"] + \
                open(self.work("abort.out")).read().splitlines()[-6:]
        else:
            shown = [runner.strip_obs(l) for l in case_lines]
        res.spec_failures.append(runner.Finding("spec", "spec:C07:implementation_aborted", shown,
                                                {"signal": -rc}))

    def _run_cfg_cases(self, harness, cases, out_path):
        """One fresh process per configuration, up to 16 in parallel; outputs concatenated in order."""
        d = self.work("cfg", "x")
        d = os.path.dirname(d)
        for old in glob.glob(os.path.join(d, "case_*")):
            os.unlink(old)

        def one(i):
            opsf = os.path.join(d, f"case_{i}.ops")
            outf = os.path.join(d, f"case_{i}.out")
            with open(opsf, "w") as fh:
                fh.write("\n".join(cases[i]) + "\n")
            try:
                rc, err = self._harness_ops(harness, opsf, outf, timeout=120)
            except subprocess.TimeoutExpired:
                # the process did not come back at all (the harness's own budget for a query did not end it): what it had
                # flushed (everything up to the operation that hangs) is judged, followed by the same end-of-case marker
                with open(outf, "a") as fh:
                    fh.write("\nE evaluation-timeout\n")
                return i, 0, "timeout"
            return i, rc, err

        errors = []
        with concurrent.futures.ThreadPoolExecutor(max_workers=min(16, os.cpu_count() or 4)) as ex:
            for i, rc, err in ex.map(one, range(len(cases))):
                if rc != 0:
                    errors.append((i, rc, err))
        with open(out_path, "w") as out:
            for i in range(len(cases)):
                with open(os.path.join(d, f"case_{i}.out")) as f:
                    out.write(f.read())
        if errors and errors[0][1] < 0:
            self._cfg_abort = (cases[errors[0][0]], errors[0][1])
        elif errors:
            i, rc, err = errors[0]
            raise core.TieBroken("harness:c07:cfg-run", f"{len(errors)} configuration processes failed; first: case {i} rc={rc}\n{err}\n" +
                                 "\n".join(cases[i]))

    @staticmethod
    def _fresh_case(out_lines):
        """From the observed output of a runtime case derive the configuration a fresh process has to load to
        reach the same final live set and states; None when the case never loaded anything."""
        nodes, pend_n, pend_d, live, states, periods = [], [], [], {}, {}, {}
        loaded = False
        for l in out_lines:
            op = runner.strip_obs(l)
            obs = l.split(" | ", 1)[1].split() if " | " in l else []
            w = op.split()
            if not w:
                continue
            if w[0] == "E":
                break
            if w[0] == "N":
                pend_n.append(op)
            elif w[0] == "D":
                pend_d.append((int(w[1]), op))
            elif w[0] == "L":
                if obs[:1] == ["ok"]:
                    nodes += pend_n
                    for i, d in pend_d:
                        live[i] = d
                    loaded = True
                elif not loaded:
                    return None
                pend_n, pend_d = [], []
            elif w[0] == "A" and obs[:1] == ["ok"]:
                live[int(w[1])] = "D " + " ".join(w[1:])
            elif w[0] == "X" or (w[0] == "R" and obs[:1] == ["ok"]):
                live.pop(int(w[1]), None)
            elif w[0] == "S":
                states[int(w[1])] = op
            elif w[0] == "T":
                periods[int(w[1])] = op
        if not loaded:
            return None
        return (["C cfg fresh"] + nodes + [live[i] for i in sorted(live)] + ["L"] +
                [states[i] for i in sorted(states)] + [periods[i] for i in sorted(periods)] + ["G", "V", "Q -"])

    @staticmethod
    def _denote_g(line):
        """Denotation of a G observation: per checkable, live dependency ids grouped by redundancy group name
        (everything outside redundancy groups is one class).  Group objects, keys, totals and the registry size
        are representation and are dropped (DESIGN.md §0.3)."""
        out = []
        for part in line.split(" | ", 1)[1].split(";"):
            if part.startswith("reg="):
                continue
            if part in ("0", "x"):
                out.append(part)
                continue
            classes = {}
            for grp in part.split("+"):
                f = grp.split("/")
                if len(f) != 4:
                    classes.setdefault("?" + grp, set()).add(-1)
                    continue
                classes.setdefault(f[0], set()).update(int(x) for x in f[2].split(",") if x)
            out.append(sorted((k, tuple(sorted(v))) for k, v in classes.items() if v) or "0")
        return out

    @staticmethod
    def _denote_q(line):
        """Closed-period bits, reachability bits and live dependency count per checkable; the number of group
        objects and the registry size are dropped."""
        pre, post = line.split(" | ", 1)
        return (pre, [":".join(t.split(":")[:2]) for t in post.split() if not t.startswith("reg=")])

    @classmethod
    def _final_obs(cls, out_lines):
        g = [l for l in out_lines if l.startswith("G |")]
        q = [l for l in out_lines if l.startswith("Q ")]
        v = [l for l in out_lines if l.startswith("V |")]
        return (cls._denote_g(g[-1]) if g else None, cls._denote_q(q[-1]) if q else None, v[-1] if v else None)

    @staticmethod
    def _final_raw(out_lines):
        g = [l for l in out_lines if l.startswith("G |")]
        q = [l for l in out_lines if l.startswith("Q ")]
        return (g[-1] if g else None, q[-1] if q else None)

    def _fresh_differs(self, harness, case_lines):
        """Run a runtime case and a fresh load of its final live set in two fresh processes; return the
        combined evidence lines when the final group composition / registry size / reachability differ."""
        f1, o1 = self.work("fresh_rt.ops"), self.work("fresh_rt.out")
        with open(f1, "w") as fh:
            fh.write("\n".join(runner.strip_obs(l) for l in case_lines) + "\nG\nV\nQ -\n")
        try:
            rc, _ = self._harness_ops(harness, f1, o1, timeout=120)
        except subprocess.TimeoutExpired:
            return None
        if rc != 0:
            return None
        rt_out = open(o1).read().splitlines()
        if any(l.startswith("E ") for l in rt_out):
            return None
        fresh = self._fresh_case(rt_out)
        if fresh is None:
            return None
        f2, o2 = self.work("fresh_fl.ops"), self.work("fresh_fl.out")
        with open(f2, "w") as fh:
            fh.write("\n".join(fresh) + "\n")
        rc, _ = self._harness_ops(harness, f2, o2, timeout=120)
        if rc != 0:
            return None
        fl_out = open(o2).read().splitlines()
        if self._final_obs(rt_out) != self._final_obs(fl_out):
            return rt_out + ["# fresh load of the same final set:"] + fl_out
        return None

    def _compare_fresh(self, res, harness, cases, out_dir):
        """`equal to what a fresh load of the same set would give`, checked on the implementation alone."""
        todo = []
        for i, c in enumerate(cases):
            if not c[0].startswith("C cfg rt"):
                continue
            rt_out = open(os.path.join(out_dir, f"case_{i}.out")).read().splitlines()
            fresh = self._fresh_case(rt_out)
            if fresh is not None and not any(l.startswith("E ") for l in rt_out):
                todo.append((i, rt_out, fresh))

        def one(t):
            i, rt_out, fresh = t
            opsf = os.path.join(out_dir, f"fresh_{i}.ops")
            outf = os.path.join(out_dir, f"fresh_{i}.out")
            with open(opsf, "w") as fh:
                fh.write("\n".join(fresh) + "\n")
            try:
                rc, err = self._harness_ops(harness, opsf, outf, timeout=120)
            except subprocess.TimeoutExpired:
                return i, rt_out, None, "timeout"
            return i, rt_out, (open(outf).read().splitlines() if rc == 0 else None), err

        n = diffs = repr_diffs = 0
        with concurrent.futures.ThreadPoolExecutor(max_workers=min(16, os.cpu_count() or 4)) as ex:
            for i, rt_out, fl_out, err in ex.map(one, todo):
                if fl_out is None:
                    raise core.TieBroken("harness:c07:fresh-run", f"case {i}: {err}")
                n += 1
                if self._final_raw(rt_out) != self._final_raw(fl_out):
                    repr_diffs += 1        # statistic: representation (group objects / registry size) differs
                if self._final_obs(rt_out) != self._final_obs(fl_out):
                    diffs += 1
                    if diffs == 1:
                        case = [l for l in rt_out]
                        hdr, ops = case[:1], case[1:]
                        ops = runner.ddmin(hdr, ops, lambda ls: self._fresh_differs(harness, ls) is not None)
                        shown = self._fresh_differs(harness, hdr + ops) or (rt_out + ["# fresh load:"] + fl_out)
                        res.spec_failures.append(runner.Finding("spec", "spec:C07:runtime_equals_fresh_load", shown,
                                                                {"case": i}))
        res.stats["fresh_load_compared"] = n
        res.stats["fresh_load_differences"] = diffs
        res.stats["fresh_load_representation_differences"] = repr_diffs

    @staticmethod
    def _split_cases(lines):
        cases = []
        for l in lines:
            if l.startswith("C "):
                cases.append([])
            if cases and l.strip():
                cases[-1].append(l)
        return cases

    def _collect(self, res, lines, save, harness, driver, stream):
        stats = {}
        for l in lines:
            if l.startswith("STATS"):
                stats = {k: int(v) for k, v in core.parse_kv(l).items()}
        if not stats:
            raise core.TieBroken("driver:c07:no-stats", stream + "\n" + "\n".join(lines[-20:]))
        for k, v in stats.items():
            if k == "max_depth":
                res.stats[k] = max(res.stats.get(k, 0), v)
            else:
                res.stats[k] = res.stats.get(k, 0) + v
            res.stats[stream + "." + k] = v
        bad = [l for l in lines if l.startswith("BADLINE")]
        if bad:
            res.corr_failures.append(runner.Finding("corr", "protocol:" + stream, bad[:5]))
        seen = set(f.what for f in res.spec_failures)
        for l in lines:
            if l.startswith("SPECFAIL"):
                kv = core.parse_kv(l)
                what = "spec:C07:" + kv["clause"]
                if what in seen:
                    continue
                seen.add(what)
                case = runner.extract_case(save, int(kv["case"]))
                hdr, ops = case[:1], case[1:]
                ops = runner.ddmin(hdr, ops, lambda ls: self._fails(harness, driver, ls, "SPECFAIL"))
                self._fails(harness, driver, hdr + ops, "SPECFAIL")
                shown = open(self.work("shrink.out")).read().splitlines()
                res.spec_failures.append(runner.Finding("spec", what, shown, {"driver": l, "stream": stream}))
        n_mis = 0
        keys = set()
        for l in lines:
            if l.startswith("MISMATCH") and n_mis < 3:
                n_mis += 1
                kv = core.parse_kv(l)
                case = runner.extract_case(save, int(kv["case"]))
                hdr, ops = case[:1], case[1:]
                ops = runner.ddmin(hdr, ops, lambda ls: self._fails(harness, driver, ls, "MISMATCH"))
                self._fails(harness, driver, hdr + ops, "MISMATCH")
                shown = open(self.work("shrink.out")).read().splitlines()
                key = tuple(shown)
                if key in keys:
                    continue
                keys.add(key)
                res.corr_failures.append(runner.Finding("corr", kv.get("what", "observation") + ":" + stream, shown,
                                                        {"driver": l, "stream": stream}))

    def correspondence(self, tier, seed, harness, driver):
        res = runner.Result()
        res.stats = {}

        # 1. corpus (hand-written seeds and minimised past disagreements), one process per file
        corpus = sorted(glob.glob(os.path.join(core.ROOT, "corpus", "C07", "*.ops")))
        if corpus:
            save = self.work("corpus.out")
            with open(save, "w") as out:
                for i, c in enumerate(corpus):
                    tmp = self.work(f"corpus_{i}.out")
                    rc, err = self._harness_ops(harness, c, tmp)
                    if rc < 0:
                        whole = [l for l in open(c).read().splitlines() if l.strip()]
                        for case in self._split_cases(whole) + [whole]:   # one case alone, else the sequence of cases
                            if self._aborts(harness, case):
                                self._abort_finding(res, harness, case, rc)
                                return res
                    if rc != 0:
                        raise core.TieBroken("harness:c07:corpus", f"{c}: rc={rc}\n{err}")
                    out.write(open(tmp).read())
            self._collect(res, self._drive(save, driver), save, harness, driver, "corpus")

        # 2. direct-object route: exhaustive small graphs x states, random graphs with runtime add/remove, chains
        save = self.work("gen.out")
        hrc, herr, drc, lines = runner.pipeline([harness, "gen", "--seed", str(seed), "--tier", tier], [driver], save)
        if hrc < 0:
            # the real code died (VERIFY / segmentation fault) in the middle of a generated case: the harness flushed what it
            # had printed (signal handler), so the last case of the output is the failing input.  What was observed before
            # that point is evaluated as usual (a wrong answer usually precedes the crash).
            if drc == 0 and any(l.startswith("STATS") for l in lines):
                self._collect(res, [l for l in lines if not l.startswith("BADLINE")], save, harness, driver, "obj")
            whole = [l for l in open(save, errors="replace").read().splitlines() if l.strip()]
            cases = self._split_cases(whole)
            last = cases[-1] if cases else whole
            # the operation that was executing when the process died may not have been printed (Q, G, V print afterwards)
            for tail in ([], ["Q"], ["G"], ["V"]):
                if self._aborts(harness, last + tail):
                    last = last + tail
                    break
            self._abort_finding(res, harness, last, hrc)
            return res
        if hrc != 0:
            raise core.TieBroken("harness:c07:run", f"rc={hrc}\n{herr}")
        if drc != 0:
            raise core.TieBroken("driver:c07:run", "\n".join(lines[-20:]))
        self._collect(res, lines, save, harness, driver, "obj")
        samples = runner.extract_case(save, 3)[:10] + ["..."] + runner.extract_case(save, max(1, res.stats.get("obj.cases", 1) - 50))[:14]

        # 3. config-load route: generated configurations, one fresh process each
        gp = subprocess.run([harness, "gencfg", "--seed", str(seed), "--tier", tier], stdout=subprocess.PIPE,
                            stderr=subprocess.PIPE, text=True)
        if gp.returncode != 0:
            raise core.TieBroken("harness:c07:gencfg", gp.stderr[-2000:])
        cases = self._split_cases(gp.stdout.splitlines())
        for c in cases:
            if c[0].startswith("C cfg rt"):
                c += ["G", "V", "Q -"]     # final observation of the runtime cases (compared with a fresh load)
        save_cfg = self.work("cfg.out")
        self._cfg_abort = None
        self._run_cfg_cases(harness, cases, save_cfg)
        if self._cfg_abort:
            self._abort_finding(res, harness, self._cfg_abort[0], self._cfg_abort[1])
            return res
        self._collect(res, self._drive(save_cfg, driver), save_cfg, harness, driver, "cfg")
        self._compare_fresh(res, harness, cases, os.path.dirname(self.work("cfg", "x")))
        if res.stats.get("fresh_load_compared", 0) == 0 or res.stats.get("cfg.runtime_refused", 0) == 0:
            raise core.TieBroken("harness:c07:rt-coverage", f"runtime route not exercised: {res.stats}")
        samples += ["..."] + runner.extract_case(save_cfg, min(7, len(cases)))[:14]

        st = res.stats
        if st.get("cfg.loads_ok", 0) == 0 or st.get("cfg.loads_cycle", 0) == 0:
            raise core.TieBroken("harness:c07:cfg-coverage", f"config route did not see both outcomes: {st}")
        res.evaluations = (st.get("evaluations", 0) + st.get("loads_ok", 0) + st.get("loads_cycle", 0) + st.get("runtime_adds", 0)
                           + st.get("groups_compared", 0) + st.get("fresh_load_compared", 0))
        res.distinct_nontrivial = st.get("nontrivial", 0)
        res.traces_validated = st.get("cases", 0)
        res.exhaustive = True
        res.rule = ("obj route (real Host/Service/Dependency objects, runtime AddDependency/RemoveDependency): exhaustive availability "
                    "(parent kind x filter x ignore_soft x period none/open/closed x disable_checks x disable_notifications x all 16 parent "
                    "states), all dependency sets of size 1..3 (4 thorough) over 4 checkables incl. a service with reduced attributes x state "
                    "assignments, seeded random acyclic graphs <= 10 nodes with interleaved add/remove/state/period operations, fixed "
                    "single-edge cycles (recursion limit), host chains of 255..300; cfg route: seeded random configurations (about half "
                    "cyclic, incl. service->host implicit edges and self-dependencies) loaded through ConfigCompiler/CommitItems/ActivateItems "
                    "in one fresh process each, with a second runtime batch; runtime route ('rt' cases): additions through "
                    "ConfigObjectUtility::CreateObject (about 40% closing a cycle: must be refused and leave dependency counts, group "
                    "composition and registry size unchanged), deletions through DeleteObject, GetDependencyGroups() composition and "
                    "registry size compared with the registry model after every step, and the final state compared with a fresh process "
                    "loading the same final set (group composition, reachability, parents/children/reverse dependencies); 'shared' cases (obj and "
                    "runtime route): two children with identical composite-key sets grouped differently (plain / redundancy group / other name) x "
                    "member variation (ignore_soft_states, disable flags, filter) x order x all 16 parent states x removal and re-addition; "
                    "V lines: GetParents/GetChildren/GetReverseDependencies of every checkable after additions and removals; 'def' cases (cfg and runtime route): "
                    "dependencies with unset states / ignore_soft_states / disable_checks / disable_notifications (all unset, one unset at a time against "
                    "non-default values, seeded mixes) x all 16 states of the parent. evaluations = IsReachable answers compared (nodes x 3 aspects per "
                    "query) + loads; a case is non-trivial when some checkable was unreachable in some aspect or a load was rejected; "
                    "distinct by hash of the operation sequence (counted by the Lean driver)")
        res.samples = samples
        return res

    def replay(self, path, harness, driver):
        data = json.load(open(path))
        lines = [l for l in data.get("case", []) if l.startswith(OP_PREFIXES)]
        f = self.work("replay.ops")
        with open(f, "w") as fh:
            fh.write("\n".join(runner.strip_obs(l) for l in lines) + "\n")
        rc, err = self._harness_ops(harness, f, self.work("replay.out"))
        print(open(self.work("replay.out")).read())
        if rc != 0:
            print(err)
            return False
        out = self._drive(self.work("replay.out"), driver)
        print("\n".join(out))
        return not any(l.startswith(("SPECFAIL", "MISMATCH", "BADLINE")) for l in out)

    def matches_known(self, entry, finding):
        return False


CHECK = C07()

"""Base class of a property check."""
import os

from vlib import core, runner  # noqa


class Check:
    prop = "C00"
    level = "proof"
    has_driver = True
    harness_name = None
    required_theorems = []
    trusted_base = []
    assumptions = []

    def generate(self):
        """Regenerate translator output (Gen/*.lean) from /repo; raise core.TieBroken on a lost anchor."""

    def build_harness(self):
        return core.build_harness(self.harness_name or self.prop.lower())

    def correspondence(self, tier, seed, harness, driver):
        raise NotImplementedError

    def matches_known(self, entry, finding):
        return False

    def replay(self, path, harness, driver):
        raise NotImplementedError

    def work(self, *parts):
        p = os.path.join(core.WORK, self.prop.lower(), *parts)
        os.makedirs(os.path.dirname(p), exist_ok=True)
        return p


class StdCheck(Check):
    """A check whose harness follows the standard line protocol: `gen --seed S --tier T` / `ops FILE`,
    cases start with a `C ` line, the driver prints MISMATCH/SPECFAIL/BADLINE/STATS."""

    rule = ""
    eval_key = "steps"
    case_start = "C"
    max_shrunk = 3
    sample_case = 2

    def _run(self, harness_cmd, driver, save):
        hrc, herr, drc, lines = runner.pipeline(harness_cmd, [driver], save)
        if hrc != 0:
            raise core.TieBroken(f"harness:{self.prop.lower()}:run", f"rc={hrc}\n{herr}")
        if drc != 0:
            raise core.TieBroken(f"driver:{self.prop.lower()}:run", "\n".join(lines[-20:]))
        return lines

    def _fails(self, harness, driver, lines, want_prefix, want_sub=""):
        f = self.work("shrink.ops")
        with open(f, "w") as fh:
            fh.write("\n".join(runner.strip_obs(l) for l in lines) + "\n")
        try:
            out = self._run([harness, "ops", f], driver, self.work("shrink.out"))
        except core.TieBroken:
            return False
        return any(l.startswith(want_prefix) and want_sub in l for l in out)

    def gen_cmd(self, harness, tier, seed):
        return [harness, "gen", "--seed", str(seed), "--tier", tier]

    def corpus_files(self):
        import glob
        return sorted(glob.glob(os.path.join(core.ROOT, "corpus", self.prop, "*.ops")))

    def shrink(self, harness, driver, case, prefix, sub=""):
        hdr, ops = case[:1], case[1:]
        if self._fails(harness, driver, hdr + ops, prefix, sub):
            ops = runner.ddmin(hdr, ops, lambda ls: self._fails(harness, driver, ls, prefix, sub))
            self._fails(harness, driver, hdr + ops, prefix, sub)
            return open(self.work("shrink.out")).read().splitlines()
        return case  # not reproducible in isolation (state carried between cases): keep the original

    def collect(self, res, lines, save, harness, driver):
        bad = [l for l in lines if l.startswith("BADLINE")]
        if bad:
            res.corr_failures.append(runner.Finding("corr", "protocol", bad[:5]))
        seen = {}
        for l in lines:
            if l.startswith("SPECFAIL"):
                kv = core.parse_kv(l)
                cl = kv.get("clause", "?")
                seen.setdefault(cl, [])
                if len(seen[cl]) >= self.max_shrunk:
                    continue
                case = runner.extract_case(save, int(kv["case"]), self.case_start)
                shown = self.shrink(harness, driver, case, "SPECFAIL", "clause=" + cl)
                seen[cl].append(shown)
                res.spec_failures.append(runner.Finding("spec", f"spec:{self.prop}:{cl}", shown, {"driver": l}))
        n = 0
        tried = 0
        seen_m = set()
        for l in lines:
            if l.startswith("MISMATCH") and n < self.max_shrunk and tried < 2 * self.max_shrunk:
                tried += 1   # bounded: thousands of disagreements that shrink to the same witness must not be shrunk one by one
                kv = core.parse_kv(l)
                case = runner.extract_case(save, int(kv["case"]), self.case_start)
                shown = self.shrink(harness, driver, case, "MISMATCH")
                key = tuple(shown)
                if key in seen_m:
                    continue
                seen_m.add(key)
                n += 1
                res.corr_failures.append(runner.Finding("corr", kv.get("op", "observation"), shown, {"driver": l}))

    def correspondence(self, tier, seed, harness, driver):
        res = runner.Result()
        total = {}
        # corpus first
        for cf in self.corpus_files():
            save = self.work("corpus.out")
            lines = self._run([harness, "ops", cf], driver, save)
            self.collect(res, lines, save, harness, driver)
            for l in lines:
                if l.startswith("STATS"):
                    for k, v in core.parse_kv(l).items():
                        if v.isdigit():
                            total["corpus_" + k] = total.get("corpus_" + k, 0) + int(v)
        save = self.work("gen.out")
        lines = self._run(self.gen_cmd(harness, tier, seed), driver, save)
        stats = {}
        for l in lines:
            if l.startswith("STATS"):
                stats = {k: int(v) for k, v in core.parse_kv(l).items() if v.lstrip("-").isdigit()}
        if not stats:
            raise core.TieBroken(f"driver:{self.prop.lower()}:no-stats", "\n".join(lines[-20:]))
        stats.update(total)
        res.stats = stats
        res.evaluations = stats.get(self.eval_key, 0)
        res.distinct_nontrivial = stats.get("nontrivial", 0)
        res.traces_validated = stats.get("cases", 0)
        res.exhaustive = getattr(self, "exhaustive", False)
        res.rule = self.rule
        res.samples = runner.extract_case(save, self.sample_case, self.case_start)[:14] + ["..."] + \
            runner.extract_case(save, stats.get("cases", 1), self.case_start)[:14]
        self.collect(res, lines, save, harness, driver)
        return res

    def replay(self, path, harness, driver):
        import json
        data = json.load(open(path))
        lines = [l for l in data.get("case", []) if l.strip()]
        f = self.work("replay.ops")
        with open(f, "w") as fh:
            fh.write("\n".join(runner.strip_obs(l) for l in lines) + "\n")
        out = self._run([harness, "ops", f], driver, self.work("replay.out"))
        print(open(self.work("replay.out")).read())
        print("\n".join(out))
        return not any(l.startswith(("SPECFAIL", "MISMATCH", "BADLINE")) for l in out)

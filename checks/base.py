"""Base class of a property check."""
import os

from vlib import core, runner


class Check:
    prop = "C00"
    level = "proof"
    has_driver = True
    harness_name = None
    required_theorems = []
    trusted_base = []
    assumptions = []

    def generate(self):
        """Regenerate translator output (Gen/*.lean) from /repo; raise core.TieBroken on a lost anchor."""

    def build_harness(self):
        return core.build_harness(self.harness_name or self.prop.lower())

    def correspondence(self, tier, seed, harness, driver):
        raise NotImplementedError

    def matches_known(self, entry, finding):
        return False

    def replay(self, path, harness, driver):
        raise NotImplementedError

    def work(self, *parts):
        p = os.path.join(core.WORK, self.prop.lower(), *parts)
        os.makedirs(os.path.dirname(p), exist_ok=True)
        return p

"""C10 — HA authority: each run-once object active on exactly one connected zone member.  See DESIGN.md §2 C10."""
import glob
import json
import os

from vlib import core, runner
from .base import Check

EVENT_OPS = ("B ", "S ", "K ", "U ", "T ", "X ", "N ", "D ", "F ", "R ", "E ", "A ", "G ")

# Harmless rewrites of the anchored code on which the full flow of this check was run and stays silent (built as mutated object
# files in scratch and linked into a scratch harness; the patches are kept as documentation in corpus/C10/negative_controls/).
NEGATIVE_CONTROLS = [
    "nc1 apilistener-authority.cpp: cold-start test extracted into a static helper, locals renamed, members walked back to front with a "
    "positively spelled guard, start time read before the loop, std::stable_sort, other log text, comments",
    "nc2 configobject.cpp SetAuthority: early returns instead of else-if, test still inside the lock, Pause() before SetPaused(true)",
    "nc3 utility.cpp SDBM: hash * 65599 + c with an index loop and explicit conversions",
    "nc4 notificationcomponent.cpp NotificationTimerHandler: guards computed up front without nesting (De Morgan), notifications visited "
    "back to front, other log text",
    "nc5 checkable-notification.cpp SendNotifications: branch order inverted, continue instead of nesting, extra field in the stashed "
    "record, other log text",
    "nc6 checkercomponent.cpp ObjectHandler: guard negated, branches swapped, erase order swapped",
    "nc7 apilistener.cpp ApiListener::Start: authority timer every 7 s instead of 10 s, timers created in another order (the harness "
    "takes which timer ran as an oracle input)",
    "nc8 notification.cpp ExecuteNotificationHelper: OnNotificationSentToUser emitted before the command runs (the harness waits for both)",
    "nc9 apilistener.cpp OnConfigLoaded: the ApiListener object itself becomes HARunEverywhere (infrastructure objects are not observed)",
    "nc10 checkercomponent.cpp ExecuteCheckHelper: erase-by-key with its return value instead of find + erase(iterator)",
    "nc11 endpoint.cpp/.hpp: GetConnected() reads a lock-free std::atomic<bool> mirror that AddClient/RemoveClient keep equal to "
    "!m_Clients.empty() (the correct version of seeded change C10-7)",
    "nc12 notification.ti: stashed_notifications loses the `state` flag (which internal bookkeeping survives a restart is an oracle input)",
    "nc13 configobject.ti: pause_called / resume_called get the `state` flag (restoring a flag is not a Pause()/Resume() call)",
    "nc14 checkable-notification.cpp FireSuppressedNotifications: the four early returns folded into one condition with the pending bits read "
    "first; checkable.cpp AcknowledgeProblem: `paused` read into a local, operands swapped; configobject.cpp Activate: run-everywhere test "
    "spelled `!= HARunOnce` through a local (runtime-created objects, checkable-originated notifications)",
]
# Compared between model and implementation: paused, #Pause(), #Resume(), #command executions per observed object, Utility::SDBM.
# Deliberately NOT compared: number of OnPausedChanged notifications, length of the notification stash, log text, timer periods
# (which timer ran is an oracle input), iteration orders, the authority of Endpoint/Zone/ApiListener/started components.
# Known dependency: the harness reaches eight private members by name (ApiListener::m_UpdatedObjectAuthority, m_RelayQueue,
# m_SyncQueue, m_AuthorityTimer; NotificationComponent::m_NotificationTimer; CheckerComponent::m_IdleCheckables,
# m_PendingCheckables, m_Mutex) and one private static function (Checkable::FireSuppressedNotificationsTimer): renaming one of them breaks the harness build, reported as a broken tie, never as a failing input.


class C10(Check):
    prop = "C10"
    required_theorems = ["exactly_one", "exactly_one_general", "same_split_independently", "alone_after_grace",
                         "cold_start_no_change", "no_zone_all_active", "pause_resume_once_per_change",
                         "authority_order_irrelevant", "never_undefined", "model_trace_meets_spec",
                         "overlapping_runs_are_one", "paused_node_is_silent", "cold_start_notification_waits",
                         "exactly_one_does_the_work", "connected_while_a_connection_is_left",
                         "closing_one_of_several_changes_nothing", "half_is_endpoint_set", "restart_has_no_authority",
                         "unseen_members_do_not_matter", "one_round_settles", "alone_after_grace_is_active",
                         "runtime_created_object_settles", "created_object_one_owner_general", "pending_notification_requested_once",
                         "node_create_fire_pointwise"]
    technique = ("Lean 4 proof (order/sort normal form, decision logic stated outright, invariant by induction over events of the "
                 "two-member system) over a hand-written model of Utility::SDBM, ApiListener::UpdateObjectAuthority, "
                 "ConfigObject::SetAuthority, the client set of Endpoint (AddClient/RemoveClient/GetConnected) and the restart of a "
                 "process with or without its state file; correspondence by differential execution of two real in-process ApiListener nodes "
                 "(one process per node identity) whose outputs are joined per scenario")
    level_text = ("Machine-checked theorems (Lean 4 kernel): for every pair of distinct endpoint names (arbitrary bytes), every object name, "
                  "every iteration order of the zone's members and arbitrary clocks, two members that see each other both decide and exactly "
                  "one decides 'authority' (also for any number of members that all see each other); the decision is a function of the name "
                  "and the set of connected members alone; alone after 30 s / single-member zone / no zone => authority for every name; the "
                  "cold-start run touches nothing; Pause/Resume calls equal the authority changes over any decision sequence (two overlapping "
                  "runs count as one); an object paused on a node gets no notification sent and no check executed there (request path, "
                  "notification timer incl. the cold-start stash, scheduler's idle set) and settled members do each piece of work exactly once; "
                  "from ANY state of two members that hold a connection to each other one authority run on each (either order) leaves "
                  "an active run-once object unpaused on exactly one of them and later runs keep it there (about the objects, not the verdicts); "
                  "a zone with further members that are not connected decides like the two-member zone; "
                  "an endpoint is connected exactly while one of its connections is left, over any sequence of attach/remove events with "
                  "arbitrary connection numbers, and closing one of several connections changes no later decision; a restarted process — "
                  "with new objects only or through the state file written while it was active — has no authority for a run-once object "
                  "until an authority run decides; an object created at runtime on both members (whatever ran before: no memory of earlier "
                  "authority runs enters a decision) is active on neither until the next run on each and after it on exactly one, with one "
                  "Resume() and no Pause() in total (also for any number of members that all see each other: one owner); a notification that a checkable has to request itself (suppressed-notifications timer, "
                  "acknowledgement, hard state change of a processed check result) is requested by no member that is paused for the checkable "
                  "and by exactly one of two settled members; "
                  "and for every layout, object and finite sequence of (re)start (plain / through the state file) / connection attach / "
                  "connection remove / authority-run / notification-request / "
                  "notification-timer / due-check / runtime-creation / checkable-originated-notification events on both members the model's trace satisfies the executable specification. The model is tied to the code by running two real ApiListener nodes "
                  "(real Endpoint/Zone objects with several real JsonRpcConnection objects per endpoint attached and removed through "
                  "Endpoint::AddClient/RemoveClient, restarts through the real ConfigObject::DumpObjects/RestoreObjects of a state file "
                  "written while the objects were active, real UpdateObjectAuthority directly and through the authority timer "
                  "registered by ApiListener::Start, real SetAuthority/Pause/Resume on Host, Service, Notification, Downtime, Comment, "
                  "CheckerComponent, NotificationComponent objects; a real started NotificationComponent and "
                  "CheckerComponent per node with recording notification/check commands; two real threads blocked on an object's lock for "
                  "overlapping authority runs; objects deleted and created anew at runtime the way ConfigItem::ActivateItems(runtimeCreated=true) "
                  "activates them for ConfigObjectUtility::CreateObject, followed by the authority run CreateObject issues for every type but "
                  "Comment/Downtime and by the authority timer; the real Checkable::FireSuppressedNotificationsTimer with a suppressed "
                  "notification pending, Checkable::AcknowledgeProblem and Checkable::ProcessCheckResult with a hard state change, counting "
                  "the OnNotificationsRequested signals they emit) on generated scenarios, diffing paused, the Pause()/Resume()/SetPaused counts, the command "
                  "executions and the stash length of every object after every event on both nodes, tying Utility::SDBM on the full "
                  "64-bit value, and evaluating the same specification predicate on the implementation's joined trace")
    level_note = ("Trusted: Lean kernel (+ propext, Classical.choice, Quot.sound), sampled correspondence (seeded scenarios + corpus), harness/driver. "
                  "Not modelled: notification filters/reminders and check scheduling arithmetic (C03/C04; the harness uses forced custom notifications and "
                  "explicitly due checks); TLS/connection establishment (a connection is an attached JsonRpcConnection object); thread interleavings "
                  "other than two authority runs blocked on one object's lock. ConfigObjectUtility::CreateObject itself (config compilation, the _api package) is not driven: the harness performs its "
                  "activation step and its authority run. Oracle input: which Notification objects get their stash of "
                  "undelivered notifications back from the state file (an object whose name is not valid UTF-8 does not: the file is JSON).")
    trusted_base = [
        "modelled, not verified: only Utility::SDBM, the endpoint selection / cold-start test / index computation of "
        "ApiListener::UpdateObjectAuthority and ConfigObject::SetAuthority; std::sort is modelled by insertion sort on distinct names "
        "(any correct sort gives the same vector: sortNames_congr)",
        "of the notification and check paths only the `paused` / UpdatedObjectAuthority guards are modelled (checkable-notification.cpp:66-110, "
        "notificationcomponent.cpp:138-206, checkercomponent.cpp:291-317); in a process without ApiListener the notification timer does not honour "
        "`paused` (notificationcomponent.cpp:159 tests the local endpoint): modelled as such, the spec clause applies to nodes with an endpoint",
        "of the notifications a checkable requests itself only the `paused` guard is modelled (checkable-notification.cpp:134-138, checkable.cpp:165, "
        "checkable-check.cpp:502): the harness arranges every other condition (pending suppressed Problem notification, hard state change, "
        "no downtime / acknowledgement) and puts the checkable's attributes back afterwards; never for the case's first host (its "
        "Notification objects would run) and check results only for Hosts (a Service's state change reschedules its host)",
        "each node process joins the ApiListener's relay/sync work queues before every observation; timers run only through Timer::VerifFireDue",
        "a restart is a rebuild of all objects of the case inside the node's process (the ApiListener singleton, the node's started "
        "components, commands and user live on); the crash is modelled by dumping the state file before the old objects are taken down",
    ]
    assumptions = [
        "`char` is signed and `unsigned long` is 64 bit on the platform (checked on every run: Utility::SDBM is compared on names with bytes >= 0x80 and on long names that wrap)",
        "times are integer seconds (exact in binary64)",
        "endpoint names of a zone are distinct and the local endpoint is a member of its zone (guaranteed by the config object registry and Zone::OnAllConfigLoaded)",
        "features (CheckerComponent, NotificationComponent) are activated without running their Start(); what Activate() does for run-everywhere objects (SetAuthority(true)) is reproduced by the harness",
    ]

    # ------------------------------------------------------------------------------------------
    def _run(self, harness_cmd, driver, save, tolerate_harness_failure=False):
        hrc, herr, drc, lines = runner.pipeline(harness_cmd, [driver], save)
        if hrc != 0 and not tolerate_harness_failure:
            # the node processes run real threads (scheduler, thread pool, relay queues): a crash that does not
            # reproduce on the same input is the harness's, not the property's -- run once more before reporting
            core.log(f"h_c10 exited with rc={hrc}; running the same input once more")
            self.harness_retries = getattr(self, "harness_retries", 0) + 1
            hrc, herr, drc, lines = runner.pipeline(harness_cmd, [driver], save)
        if hrc != 0:
            if tolerate_harness_failure:
                return None
            raise core.TieBroken("harness:c10:run", f"rc={hrc}\n{herr}")
        if drc != 0:
            raise core.TieBroken("driver:c10:run", "\n".join(lines[-20:]))
        return lines

    def _fails(self, harness, driver, lines, want_prefix):
        f = self.work("shrink.ops")
        with open(f, "w") as fh:
            fh.write("\n".join(runner.strip_obs(l) for l in lines) + "\n")
        out = self._run([harness, "ops", f], driver, self.work("shrink.out"), tolerate_harness_failure=True)
        return out is not None and any(l.startswith(want_prefix) for l in out)

    @staticmethod
    def _split_case(case):
        """fixed = C line, first object (the host the others refer to) ; objs = the other O lines (those derived from
        the C line are re-created by the harness) ; boots = each node's first B line ; ops = the events after that."""
        fixed, objs, boots, ops, booted = [], [], [], [], set()
        for l in case:
            if l.startswith(EVENT_OPS):
                node = l.split()[1]
                if l.startswith("B ") and node not in booted and not ops:
                    booted.add(node)
                    boots.append(l)
                else:
                    ops.append(l)
            elif l.startswith("O "):
                if l.split()[1] in "ezaFK":
                    continue
                if len(fixed) < 2:
                    fixed.append(l)
                else:
                    objs.append(l)
            elif l.startswith("C "):
                fixed.append(l)
        return fixed, objs, boots, ops

    def _shrink(self, harness, driver, case, prefix):
        """Delta debugging over the events, then over the objects; returns the lines of the minimal failing case
        with both nodes' observations, or the original case when it does not reproduce in a fresh process."""
        fixed, objs, boots, ops = self._split_case(case)
        if not self._fails(harness, driver, fixed + objs + boots + ops, prefix):
            return case
        ops = runner.ddmin(fixed + objs + boots, ops, lambda ls: self._fails(harness, driver, ls, prefix))
        if len(ops) == 1 and self._fails(harness, driver, fixed + objs + boots, prefix):
            ops = []
        if objs:
            keep = runner.ddmin([], objs, lambda ls: self._fails(harness, driver, fixed + ls + boots + ops, prefix))
            if len(keep) == 1 and self._fails(harness, driver, fixed + boots + ops, prefix):
                keep = []
            objs = keep
        self._fails(harness, driver, fixed + objs + boots + ops, prefix)
        return open(self.work("shrink.out")).read().splitlines()

    def _stats(self, lines, what):
        for l in lines:
            if l.startswith("STATS"):
                return {k: int(v) for k, v in core.parse_kv(l).items()}
        raise core.TieBroken(f"driver:c10:no-stats:{what}", "\n".join(lines[-20:]))

    def _collect(self, res, lines, save, harness, driver, origin):
        bad = [l for l in lines if l.startswith("BADLINE")]
        if bad:
            res.corr_failures.append(runner.Finding("corr", "protocol", bad[:5], {"origin": origin}))
        all_lines = open(save).read().splitlines()
        seen = set()
        for l in lines:
            if l.startswith("SPECFAIL"):
                kv = core.parse_kv(l)
                if kv["clause"] in seen:
                    continue
                seen.add(kv["clause"])
                shown = self._shrink(harness, driver, runner.extract_case(save, int(kv["case"])), "SPECFAIL")
                res.spec_failures.append(runner.Finding("spec", "spec:C10:" + kv["clause"], shown, {"driver": l, "origin": origin}))
        seen = set()
        for l in lines:
            if l.startswith("MISMATCH") and len(seen) < 3:
                kv = core.parse_kv(l)
                if kv.get("what") == "sdbm":
                    hline = all_lines[int(kv["line"]) - 1]
                    shown = ["C N 0 61 62 7a 79", "O h 0 1 68", hline]
                    key = "sdbm"
                else:
                    shown = self._shrink(harness, driver, runner.extract_case(save, int(kv["case"])), "MISMATCH")
                    key = tuple(runner.strip_obs(x) for x in shown)
                if key in seen:
                    continue
                seen.add(key)
                res.corr_failures.append(runner.Finding("corr", "authority-index", shown, {"driver": l[:600], "origin": origin}))

    def correspondence(self, tier, seed, harness, driver):
        res = runner.Result()
        total = {}
        # corpus first
        corpus = sorted(glob.glob(os.path.join(core.ROOT, "corpus", self.prop, "*.ops")))
        for i, f in enumerate(corpus):
            save = self.work(f"corpus{i}.out")
            lines = self._run([harness, "ops", f], driver, save)
            st = self._stats(lines, os.path.basename(f))
            for k, v in st.items():
                total[k] = total.get(k, 0) + v
            self._collect(res, lines, save, harness, driver, os.path.basename(f))
        # generated scenarios
        save = self.work("gen.out")
        lines = self._run([harness, "gen", "--seed", str(seed), "--tier", tier], driver, save)
        stats = self._stats(lines, "gen")
        for k, v in stats.items():
            total[k] = total.get(k, 0) + v
        self._collect(res, lines, save, harness, driver, "gen")
        res.stats = total
        res.extra = {"corpus_files": [os.path.basename(f) for f in corpus], "harness_retries": getattr(self, "harness_retries", 0),
                     "negative_controls": NEGATIVE_CONTROLS}
        res.evaluations = total["verdict_keep"] + total["verdict_true"] + total["verdict_false"] + total["hashes"]
        res.distinct_nontrivial = total["nontrivial"]
        res.traces_validated = total["cases"]
        res.exhaustive = False
        res.rule = ("corpus/C10/*.ops, then seeded scenarios (one PRNG from VERIF_SEED; both node processes generate the same text): layout "
                    "no-listener / own single-member zone / one zone with A, B and 0-3 further members; endpoint, zone and object names of "
                    "1..40 arbitrary bytes (ASCII, only >= 0x80, mixed, any byte incl. NUL, near-equal names, prefix/sign-bit variants of the "
                    "peer's name, same name for objects of different types); 1..24 (40 thorough) objects of Host, Service, Notification, "
                    "Downtime, Comment, CheckerComponent, NotificationComponent, some run-everywhere, some never activated (the "
                    "Endpoint/Zone/ApiListener objects and the node's started components are not observed); 4..34 (64) events: restarts (start time set or 0), symmetric and one-sided "
                    "connects/disconnects, UpdateObjectAuthority directly, through Timer::VerifFireDue and (a third of the cases) as two "
                    "overlapping runs blocked on a random object's lock, forced notification requests (also inside the cold-start window), "
                    "notification timer runs, objects created at runtime on one or both members (then the authority run of CreateObject, "
                    "or only the authority timer for Comment/Downtime), notifications a checkable requests itself on one or both members "
                    "(suppressed-notifications timer with one pending, acknowledgement, processed check result with a hard state change), "
                    "due checks of random checkables, checks held IN FLIGHT (blocking check command) while links and "
                    "authority change, then released and made due twice more, the local Endpoint state that is not `connected` (syncing, "
                    "connecting, log positions, capabilities, version, last-message times) scrambled independently on each node, the same "
                    "work on both members after link changes, clocks "
                    "stepping around the 30 s window; a block of pure Utility::SDBM comparisons. evaluations = per-object verdicts of authority runs + hash "
                    "comparisons; a case counts as non-trivial when both members were settled with each other and node A held some of the "
                    "run-once objects and not others (counted by the Lean driver)")
        k = max(1, stats["cases"] // 2)
        res.samples = [l[:300] for l in runner.extract_case(save, k)[:40]]
        return res

    def replay(self, path, harness, driver):
        data = json.load(open(path))
        lines = [l for l in data.get("case", []) if l[:2] in ("C ", "O ", "H ") + EVENT_OPS]
        f = self.work("replay.ops")
        with open(f, "w") as fh:
            fh.write("\n".join(runner.strip_obs(l) for l in lines) + "\n")
        out = self._run([harness, "ops", f], driver, self.work("replay.out"))
        print(open(self.work("replay.out")).read())
        print("\n".join(out))
        return not any(l.startswith(("SPECFAIL", "MISMATCH", "BADLINE")) for l in out)


CHECK = C10()

"""C04 — scheduler: every responsible checkable keeps being checked, never twice at once.  See DESIGN.md §2 C04."""
import glob
import json
import os

from vlib import core, runner
from .base import Check

# Harmless, behaviour-preserving rewrites of the anchored code on which the whole flow (corpus + generated scenarios + probes, under a
# parallel ./check as load) stays silent; patches in corpus/C04/negative_controls/*.diff (documentation, not applied by the check; built as
# scratch objects + scratch harness with HOWTO_build.sh.txt / HOWTO_run.py.txt there).
NEGATIVE_CONTROLS = [
    "nc1_reorder_rename_extract: notify_all moved to the front of the helper's / ObjectHandler's / NextCheckChangedHandler's critical section, "
    "insert-before-erase and swapped erases inside one section, locals renamed, the helper's final section extracted into a lambda",
    "nc2_message_texts: other wording / severity of the log lines, of the exception check result's output and of the CONTEXT string",
    "nc3_container: CheckableScheduleInfo with extra bookkeeping fields, index 0 ordered by descending address, the time index a ranked index, "
    "typedef CheckableSet renamed (the harness robs the members by name only and scans the entries' Object/NextCheck)",
    "nc4_guard_spellings: ObjectHandler with a negated flag and two ifs, `!(x < max)` / `!(wait <= 0)`, test-and-set of m_CheckRunning as "
    "if/else, UpdateNextCheck's adjustment nested and with ?: instead of std::min",
    "nc5_poll_quarter_second: the scheduler's poll timeout 0.5 s -> 0.25 s (the probes' verdicts do not depend on the timeout: 0.15 s median bound, "
    "F-C04b then shows 0.17 s and is still classified as the known finding)",
    "nc6_more_points_moved_lines: additional VERIF_POINTs with unknown names inside and outside the sections (sched.loop, "
    "sched.before-pending-insert, object.begin, nextcheck.begin, helper.locked, other.subsystem.point), braces/comments, and "
    "IncreasePendingChecks() moved into the scheduler's critical section before the sched.pick point",
    "nc7_guard_set_reordered (round 3, applied with tools/mutate.sh): the scheduler's guard set reads all its inputs into locals first (own flag, the "
    "global flag of the object's type through ?:, period, dependency) and tests them in another order (period, flags in one combined test for hosts "
    "and services, dependency last); ObjectHandler's zone test in negated form",
    "nc8_plugin_counter_order (round 3): PluginCheckTask takes its unit before bumping CurrentConcurrentChecks and through a named boolean; "
    "ProcessFinishedHandler gives it back after trimming the output (script=plugin stays silent: pi is logged after the real +1, pd before the real -1)",
    "nc9_rearm_after_guard_both_branches (round 4): ExecuteCheck re-arms (SetLastCheckStarted + UpdateNextCheck) AFTER the single-flight test but in both "
    "branches (the harmless sibling of seeded C04-10); RescheduleCheck reads its parameters first and sets force_next_check only if it is not set yet; the "
    "skip path calls UpdateNextCheck through a local.  not_rearmed is evaluated when ExecuteCheck has RETURNED (helper.dec), not at the guard, and the driver "
    "replays the early re-arm with a synthetic value, so the order inside ExecuteCheck is not compared",
]
# Contract of the H3 points that the trace validation does rely on (a maintainer moving them breaks the tie, not the property): the points
# sched.pick/sched.skip/helper.finish/object.done/nextcheck.reindex are reached after the section's last change of the two sets and before the
# lock is released; helper.dec is reached before DecreasePendingChecks(); guard.* inside the object lock next to the flag access.


class C04(Check):
    prop = "C04"
    required_theorems = ["one_location", "key_tracks_next_check", "single_flight",
                         "passive_result_pre_fix_breaks_single_flight", "concurrency_bound", "next_check_window",
                         "forced_runs", "skip_iff", "eligible_runs", "progress", "sched_keeps_scheduled", "sched_takes_earliest", "pending_has_helper",
                         "completion_always_possible", "no_slot_leak", "model_trace_meets_spec",
                         "counter_exceeds_max_with_plugins", "rearm_after_dispatch", "update_next_check_after_dispatch",
                         "rearmed_when_attempt_returns"]
    technique = ("Lean 4 proof (invariants by induction over arbitrary interleavings of a transition system whose actions are the "
                 "lock-protected sections of CheckerComponent, the single-flight flag of Checkable::ExecuteCheck and the attribute writes "
                 "that happen outside the checker's mutex; exact rational arithmetic for UpdateNextCheck); correspondence by trace "
                 "validation: a real, started CheckerComponent over 5-300 real Host objects in real time, with pause/resume, SetNextCheck, "
                 "force, activation and deactivation fired from other threads, logs every critical section through the schedule points H3 "
                 "(VERIF_POINT, -DICINGA2_VERIF) and the Lean driver checks that the log is a path of the model")
    level_text = ("Machine-checked theorems (Lean 4 kernel) for every interleaving (arbitrary finite list of enabled actions, any number of "
                  "checkables, any max_concurrent_checks >= 0): no checkable is ever in the idle and the pending set at once and, outside the "
                  "window between an attribute write and the ObjectHandler call that follows it, a checkable is schedulable iff it is in exactly "
                  "one of them (pause, resume, SetNextCheck, force, activation, deactivation at any moment drop nothing and duplicate nothing); "
                  "the idle key equals next_check once the change handler has run; at most one execution per checkable between the "
                  "m_CheckRunning test-and-set and its result, passive results at any moment included (F-C04c fixed by 1c45f06; the pre-fix transition is kept as a "
                  "documentation theorem); running command bodies + spawned, unfinished plugin processes <= max_concurrent_checks and <= the pending-checks counter, which equals the units held by helpers plus PluginCheckTask's own +1/-1 balance (the counter itself may exceed the limit: theorem counter_exceeds_max_with_plugins); the whole observed trace of the model satisfies the executable specification (model_trace_meets_spec); a forced check is dispatched "
                  "whatever reachability / enable_active_checks / check period say; eligible_runs: for every enabled scheduler section the guard set "
                  "(explicit disable_checks dependency, the object's own enable_active_checks AND the global flag of ITS type - enable_host_checks for "
                  "hosts, enable_service_checks for services -, check period) dispatches iff the check is forced or eligible in the property's terms and "
                  "skips (stays idle) iff neither - a host's state is not among the facts, a service of a DOWN host keeps being checked; "
                  "pending_has_helper: in every reachable state a checkable in the pending set has a dispatched helper whose final section takes it out "
                  "again and, if active, back into the idle set (nothing is stranded in pending); completion_always_possible: from every reachable state the completion path of any checkable can be run to its end with that "
                  "checkable's own actions alone (each enabled regardless of all other checkables), after which it is not pending and - if schedulable and its "
                  "handlers have run - idle again; sched_takes_earliest: the scheduler never takes an entry while an idle one has an earlier key; no_slot_leak: whenever nothing is in flight the "
                  "pending-checks counter is 0, whatever happened to the checkables meanwhile; rearmed_when_attempt_returns (round 4): ExecuteCheck's early, unconditional "
                  "UpdateNextCheck() (before the single-flight guard) and the UpdateNextCheck() of result processing / the skip path are transitions of the model "
                  "(rearm / ownResched: clock not before the dispatch, value after the clock - the latter is next_check_window); in every reachable state in which an "
                  "execution attempt past that point is outstanding and no outside party wrote next_check since the earliest outstanding dispatch, next_check lies after "
                  "that dispatch - also when the attempt found the guard busy - and the model's trace carries this as the `rearmed` observation at every helper's "
                  "return (clause not_rearmed of model_trace_meets_spec); no stuck state (a due idle checkable and a free slot enable "
                  "the scheduler for the smallest key); UpdateNextCheck yields now < next <= now + interval for all now, offset >= 0, interval > 0. "
                  "The model is tied to the code by validating the real scheduler's section-by-section trace against it (every section enabled, "
                  "same membership, key and counter discipline afterwards), by the harness's own monitor of command start/end per checkable, by "
                  "a quiescent snapshot after every scenario, and by comparing UpdateNextCheck with the exact model on tens of thousands of "
                  "(now, offset, interval) triples under the virtual clock; the specification predicate is evaluated on the implementation's "
                  "own observations, including at EVERY logged section: once a pause / resume / activation / deactivation has completed, a checkable that is "
                  "not this node's to schedule (paused, inactive, or in a foreign zone) is in neither set and one that is, is in one (clauses scheduled_while_not_responsible / dropped_from_schedule); "
                  "at every scheduler decision the harness records, from its OWN bookkeeping written under the checker's mutex, the object's flag, both global flags, "
                  "the period and the state of the gate host of its disable_checks dependency, and the specification demands: forced => executed, eligible => "
                  "executed (eligible_skipped), unforced and ineligible => not executed (ran_although_disabled); at quiescence nothing is left in the pending set "
                  "(quiescent_pending) and the implementation's pending-checks counter is 0 (slot_leaked); every time ExecuteCheck() has returned inside a helper (result delivered, "
                  "process spawned, or guard found busy) the implementation's own next_check must lie after the clock of the earliest outstanding dispatch unless a harness "
                  "operation wrote next_check meanwhile (not_rearmed); forced checks are requested through the PRODUCTION entry points - ApiActions::RescheduleCheck (with and "
                  "without next_check) and the external commands SCHEDULE_FORCED_HOST_CHECK / SCHEDULE_FORCED_SVC_CHECK - for every skip reason (own flag, period, global flag of "
                  "the type, failed disable_checks dependency) and must be executed (forced_runs), the same requests without force must be skipped (ran_although_disabled) and, "
                  "once the reason is gone, executed (eligible_skipped). PARTIAL: real-time liveness (a due check starts as soon as a slot is free) is only measured (latency "
                  "histogram, overdue bound), not proved")
    level_note = ("Trusted: Lean kernel (+ propext, Classical.choice, Quot.sound), sampled trace validation in real time (seeded scenarios; thread "
                  "schedules are not reproducible), harness/driver, std::mutex and the thread pool. Not modelled: interleavings finer than a "
                  "critical section (data races), remote checks "
                  "(command_endpoint), ACTIVE results relayed by the cluster during a local execution (they still reset the single-flight flag), the evaluation of "
                  "dependencies / time periods themselves (C07/C08: the model takes 'no disable_checks dependency failed' and 'period open' as recorded facts; the "
                  "harness makes them true/false through gate hosts and an always-open / always-closed period), the VALUE UpdateNextCheck computes inside the transition system "
                  "(rearm / ownResched take it as a parameter constrained to lie after the clock; the arithmetic is the separate exact function with theorem next_check_window; the "
                  "driver replays ExecuteCheck's early re-arm with a synthetic value because the schedule points do not log it), the sequential order of the scheduler thread "
                  "between a skip and its UpdateNextCheck, the cluster entry point of forced checks (event::SetForceNextCheck), Checkable::Start's initial spread, IEEE rounding in UpdateNextCheck (agreement within 1 us is checked), "
                  "wall-clock liveness (measured only).")
    trusted_base = [
        "modelled, not verified: CheckerComponent::CheckThreadProc/ExecuteCheckHelper/ObjectHandler/NextCheckChangedHandler at the granularity of "
        "their critical sections, the guard set of CheckThreadProc:142-176 as a function of six recorded facts (is-service, dependency ok, own flag, the two "
        "global flags, period open), the m_CheckRunning test-and-set/reset, ExecuteCheck's early UpdateNextCheck before the guard, PluginCheckTask's +1/-1, "
        "Checkable::UpdateNextCheck (pure function); the clock is monotone (a helper reads it no earlier than the scheduler that dispatched it); "
        "everything else of ExecuteCheck / ProcessCheckResult / IsReachable / TimePeriod::IsInside runs for real in the harness but is not in the model",
        "hook H3 (lib/base/verif-hooks.hpp, add-only under #ifdef ICINGA2_VERIF): VERIF_POINT calls inside the critical sections; the harness "
        "reads m_IdleCheckables/m_PendingCheckables (private, via explicit template instantiation) while the section's lock is still held",
        "std::mutex / ObjectLock provide mutual exclusion, the thread pool runs every queued callback, boost::multi_index keeps its order",
        "the harness writes force_next_check while holding the checker's mutex so that the order of the trace is the real order of reads and "
        "writes of that flag (the attribute has no handler inside the checker)",
    ]
    assumptions = [
        "real-time liveness is measured, not proved (partial): (a) lateness histogram of dispatches (reported only); (b) every idle entry that was "
        "due when the operations stopped must have been taken 2.5 s later — a verdict only if no scenario process of the run saw one of its "
        "four canary threads oversleep by > 0.2 s (threads of this machine were observed to stall for 0.4-0.9 s under load); (c) a scripted probe "
        "(script=wakeup; F-C04a, fixed by 31ee201): with max_concurrent_checks=1, A is paused while its command runs and B is made due; when A's "
        "helper finishes, the freed slot must wake the scheduler for B at once: the MEDIAN over 12 repetitions of the delay must be < 0.15 s "
        "(before the fix: 0.42 s, after: ~0.1 ms), which is robust against single stalls; (d) the same probe with A's command being a plugin-like "
        "process (script=wakeup_async): the slot is freed by the finished process, which does not wake the scheduler when A is not idle - known finding F-C04b; offered load of the random scenarios is kept below "
        "~40 % of max_concurrent_checks",
        "(e) script=wakeup_resched (round 3): A is the front of the idle queue (due in 600 s), B behind it is rescheduled to now; the scheduler must take B "
        "without any further event (order-based verdict, see below)",
        "the facts of the scheduler's guard set are the harness's own bookkeeping: enable_active_checks, check_period ('' / always open / always closed), "
        "enable_host_checks / enable_service_checks and the gate hosts' state are written together with that bookkeeping while holding the checker's mutex, "
        "so the scheduler's section reads exactly what the bookkeeping says; explicit dependencies: disable_checks, state filter Up, parent = a gate host "
        "that is never scheduled and whose hard state only the harness sets",
        "script=plugin runs the real PluginCheckTask::ScriptFunc / ProcessFinishedHandler with real processes; its two counter operations cannot be "
        "logged atomically, so `pi` is logged after the real +1 and `pd` before the real -1: the counter the driver derives is never above the real one; "
        "and because the scheduler READS the counter (checkercomponent.cpp:121) earlier in the same critical section that ends at the sched.pick point, a real +1 of "
        "PluginCheckTask (outside the checker's mutex) can fall between that read and the pick point: `pi` lines logged since the last event that was logged under the "
        "checker's mutex are therefore taken as happening after the dispatch when that makes it legitimate (STATS slot_judged_before_plugin_inc; no false "
        "concurrency_slot / pick-not-enabled - observed once under negative control nc5 before this rule), at the price of not seeing a dispatch that used a unit for a few microseconds longer",
        "at most one harness operation per checkable is in flight at a time (operations on different checkables, helpers and the scheduler run concurrently)",
        "check commands either deliver their result from inside the command function (or throw), or behave like PluginCheckTask: hand the work to a "
        "'process' (own thread), take their own +1 on the pending-checks counter after the spawn and give it back when the process finished, "
        "before the result is processed; the harness does these two counter operations while holding the checker's mutex so that the trace order "
        "is the order in which the scheduler saw the counter; commands that never deliver a result are not generated; passive results during an execution only in script=passive_during_check",
        "UpdateNextCheck is compared on times/intervals that are multiples of 1/64 s (so that fmod's arguments are exact in binary64) with a tolerance of 1 us",
        "F-C04c (fixed by 1c45f06, was Q-C04): script=passive_during_check stays as a regression scenario - the first execution is held by a latch until the "
        "forced helper has come back, so the verdict (no second execution) does not depend on durations",
        "wall-clock verdicts: liveness_overdue and the two 0.5 s-poll probes (wakeup, wakeup_async: median >= 0.15 s) are evaluated only when the canary threads saw no "
        "stall (else counted as inconclusive); wakeup_resched is order-based (the harness waits 8 s for the rescheduled entry before any other event; two "
        "unanswered reschedules fail, inconclusive if a canary overslept >= 4 s); every other clause is about order and state, not time",
        "not_rearmed is judged only at a helper's return (`dec`), never for the scheduler's skip path (round-4 follow-up: while a deactivation is in flight the skip "
        "path's UpdateNextCheck fires no OnNextCheckChanged - signals are suppressed for inactive objects -, the idle key stays stale and the dying object is "
        "legitimately skipped again; that produced one false alarm in a thorough run under load and the skip-path check was removed), and not while an activate / "
        "deactivate operation on the checkable is in flight",
        "not_rearmed: a harness SetNextCheck-like operation (OpSetNext, the API action, the external commands; logged `ob setnext` .. `oe setnext`) between the earliest "
        "outstanding dispatch and the helper's return suspends the claim for that attempt (its write may be the last one); all other writers of next_check that run in "
        "the scenarios (ExecuteCheck, ProcessCheckResult for active and passive results, the scheduler's skip path, Checkable::Start) write values after their own clock; "
        "the parent/child reschedules of ProcessCheckResult (:411-438) are not reachable (the only dependency parents are gate hosts that are never checked)",
        "script=api_force: `E force` is logged when the request is made, before the entry point's SetForceNextCheck; the checkable is idle and due in 600 s, so the "
        "scheduler cannot take it before the entry point's own SetNextCheck, which follows the flag write in all three entry points",
        "thread schedules are not reproducible: --replay re-runs the scenario with the same seed and parameters several times",
    ]
    use_leanchecker = True

    # ------------------------------------------------------------------------------------------
    def _run(self, harness_cmd, driver, save):
        hrc, herr, drc, lines = runner.pipeline(harness_cmd, [driver], save, timeout=3000)
        if hrc != 0:
            raise core.TieBroken("harness:c04:run", f"rc={hrc}\n{herr}")
        if drc != 0:
            raise core.TieBroken("driver:c04:run", "\n".join(lines[-20:]))
        return lines

    @staticmethod
    def _context(save, line_no, cid):
        """The case header plus the last events that concern checkable `cid` up to the failing line."""
        header, ctx = None, []
        with open(save, errors="replace") as f:
            for n, l in enumerate(f, 1):
                l = l.rstrip("\n")
                if l.startswith("C "):
                    header, ctx = l, []
                elif l.startswith(("E ", "W ", "Q ", "K ")):
                    w = l.split()
                    idx = 2 if l.startswith("E ") else 1
                    if len(w) > idx and w[idx] == str(cid):
                        ctx.append(f"{n}: {l}")
                        ctx = ctx[-60:]
                elif l.startswith(("U ", "M ")) and n == line_no:
                    ctx.append(l if l.startswith("U ") else f"{n}: {l}")
                if n >= line_no:
                    break
        return [header or "C 0 ?"] + ctx

    @staticmethod
    def _sections_before(save, line_no):
        ctx = []
        with open(save, errors="replace") as f:
            for n, l in enumerate(f, 1):
                if n > line_no:
                    break
                if l.startswith("C "):
                    ctx = []
                elif l.startswith(("E pick", "E skip", "E dec", "E fin", "E nc")):
                    ctx.append(f"{n}: {l.rstrip()}")
                    ctx = ctx[-8:]
        return ctx

    def matches_known(self, entry, finding):
        if entry.get("classifier") == "c04_no_wakeup_when_plugin_process_finished":
            # narrow: only the scripted asynchronous wake-up probe (script=wakeup_async), whose only silent slot releases are
            # finished plugin processes of a paused checkable; the helper variant (F-C04a) and every other clause still fail
            return (finding.kind == "spec" and finding.what == "spec:C04:liveness_wakeup_when_process_finished"
                    and any("script=wakeup_async" in l for l in finding.case_lines[:1]))
        return False

    def _reproduce(self, harness, driver, case, prefix, tries):
        ops = [l for l in case if l.startswith(("C ", "U "))]
        f = self.work("shrink.ops")
        with open(f, "w") as fh:
            fh.write("\n".join(runner.strip_obs(l) for l in ops) + "\n")
        for _ in range(tries):
            try:
                out = self._run([harness, "ops", f], driver, self.work("shrink.out"))
            except core.TieBroken:
                return False
            if any(l.startswith(prefix) for l in out):
                return True
        return False

    def _collect(self, res, lines, save, harness, driver, origin):
        bad = [l for l in lines if l.startswith("BADLINE")]
        if bad:
            res.corr_failures.append(runner.Finding("corr", "protocol", bad[:5], {"origin": origin}))
        seen = set()
        for l in lines:
            if not l.startswith(("SPECFAIL", "MISMATCH")):
                continue
            kv = core.parse_kv(l)
            spec = l.startswith("SPECFAIL")
            what = kv.get("clause") if spec else kv.get("op", "observation")
            if (spec, what) in seen or len(seen) >= 6:
                continue
            seen.add((spec, what))
            case = self._context(save, int(kv["line"]), kv.get("cid", "0"))
            # arithmetic lines replay deterministically; scenarios are re-run with the same seed (threads: best effort)
            arith = case[0].split()[2:3] == ["arith"]
            if spec and what in ("liveness_wakeup_when_slot_freed", "liveness_wakeup_when_process_finished",
                                 "liveness_wakeup_when_rescheduled"):
                # context = the scheduler's and the helpers' sections just before the late dispatch (all checkables)
                case = case[:1] + self._sections_before(save, int(kv["line"]))
            tries = 0 if (spec and what == "liveness_overdue") else (1 if arith else 2)
            reproduced = self._reproduce(harness, driver, case, "SPECFAIL" if spec else "MISMATCH", tries)
            detail = {"driver": l, "origin": origin, "reproduced_on_rerun": reproduced,
                      "note": "lines `<n>: …` are the recorded observations of the failing run (context); replay re-runs the `C` line"}
            if spec:
                res.spec_failures.append(runner.Finding("spec", f"spec:C04:{what}", case, detail))
            else:
                res.corr_failures.append(runner.Finding("corr", what, case, detail))

    def _stats(self, lines, what):
        for l in lines:
            if l.startswith("STATS"):
                return {k: int(v) for k, v in core.parse_kv(l).items() if v.lstrip("-").isdigit()}
        raise core.TieBroken(f"driver:c04:no-stats:{what}", "\n".join(lines[-20:]))

    def correspondence(self, tier, seed, harness, driver):
        res = runner.Result()
        total = {}
        corpus = sorted(glob.glob(os.path.join(core.ROOT, "corpus", self.prop, "*.ops")))
        for i, f in enumerate(corpus):
            save = self.work(f"corpus{i}.out")
            lines = self._run([harness, "ops", f], driver, save)
            st = self._stats(lines, os.path.basename(f))
            for k, v in st.items():
                total["corpus_" + k] = total.get("corpus_" + k, 0) + v
            self._collect(res, lines, save, harness, driver, os.path.basename(f))
        save = self.work("gen.out")
        lines = self._run([harness, "gen", "--seed", str(seed), "--tier", tier], driver, save)
        stats = self._stats(lines, "gen")
        self._collect(res, lines, save, harness, driver, "gen")
        stats.update(total)
        res.stats = stats
        res.extra = {"corpus_files": [os.path.basename(f) for f in corpus],
                     "liveness": {"label": "partial: measured, not proved",
                                  "dispatch_lateness_histogram_us": {k: stats.get(k, 0) for k in
                                                                     ("lat_lt1ms", "lat_lt10ms", "lat_lt100ms", "lat_lt1s", "lat_ge1s")},
                                  "lateness_max_us": stats.get("lat_max_us", 0),
                                  "overdue_max_us_after_settle": stats.get("overdue_max_us", 0),
                                  "inconclusive_scenarios": stats.get("liveness_inconclusive", 0)}}
        res.evaluations = stats.get("steps", 0)
        res.distinct_nontrivial = stats.get("nontrivial", 0)
        res.traces_validated = stats.get("sched_cases", 0) + total.get("corpus_sched_cases", 0)
        res.exhaustive = False
        res.rule = ("corpus/C04/*.ops, then from one PRNG seeded by VERIF_SEED: 40 000 (300 000 thorough) UpdateNextCheck comparisons under the "
                    "virtual clock (now small / medium / around 1.7e9 s, intervals <= 1 s, = 1 s, just above, whole seconds, minutes, arbitrary; "
                    "offsets 0 .. 2^31; hard and soft-with-result state) and 15 (24) real-time scenarios of 5 s (75 s) plus 2 (6) scripted wake-up probes (helper / plugin-process variant), 1 (2) wakeup_resched probes (a non-front idle entry is rescheduled to now), 1 (2) eligibility probes (host hard DOWN with a service, a host behind a disable_checks dependency; global flags, own flag, period and gate switched off and on with forced checks in between), 1 (2) plugin probes (8+2 checkables whose command is the real PluginCheckTask running /bin/sh processes, max_concurrent_checks=2, 2 mutator threads) 1 (2) api_force probes (forced / unforced requests through the reschedule-check API action and the SCHEDULE_FORCED_* external commands for every skip reason; also corpus/C04/forced_entry_points.ops), 1 passive_during_check probe (regression of F-C04c; its forced second dispatch finds the guard busy - not_rearmed is evaluated on it) and 1 (2) skip_pause probes (an OnNextCheckChanged slot pauses a checkable from inside the window in which the scheduler's skip path has released its mutex; it must stay out of both sets), 5 (6) at a time, one process "
                    "each: 5-300 hosts plus up to n/4 created at run time, max_concurrent_checks in {1, 2, 4, 16}, check intervals 30 ms - 3 s "
                    "(some above 1 s so that the offset adjustment is live), retry intervals, max_check_attempts 1-3, one third Services of an earlier host of the scenario (hosts that are always / alternately DOWN included), 1 in 12 in a foreign zone, 1 in 6 behind a disable_checks dependency on one of two gate hosts, 10 % with active checks "
                    "disabled, 10 % with a closed check period (one mutator operation in ten toggles the object's flag, its period, a global flag or a gate at run time), commands that sleep (mean chosen for ~40 % load), return OK / alternate / fail / "
                    "throw, one third of them asynchronous like PluginCheckTask (own thread per 'process', own +1/-1, sometimes finishing before the +1); 1-4 mutator threads fire pause, resume, bounce (pause+resume+SetNextCheck(now)), SetNextCheck (now, past, near "
                    "future, one interval), force (+SetNextCheck(now)), deactivate, activate+resume of pool objects, OnPausedChanged without a change, one in four aimed at a "
                    "checkable whose command is executing; seeded delays/yields at the schedule points inside the critical sections. "
                    "evaluations = model actions replayed from the implementation's trace + arithmetic comparisons; a scenario counts as "
                    "non-trivial when it contains a forced dispatch and a skipped check or a busy single-flight guard (counted by the Lean driver)")
        sample = []
        with open(save, errors="replace") as f:
            keep = 0
            for l in f:
                if l.startswith("C ") and "sched" in l:
                    keep = 14
                if l.startswith("E pick") and keep == 0 and len(sample) < 40:
                    keep = 8
                if keep > 0:
                    sample.append(l.rstrip("\n"))
                    keep -= 1
                if len(sample) >= 44:
                    break
        res.samples = sample
        return res

    def replay(self, path, harness, driver):
        data = json.load(open(path))
        lines = [l for l in data.get("case", []) if l.startswith(("C ", "U "))]
        f = self.work("replay.ops")
        with open(f, "w") as fh:
            fh.write("\n".join(runner.strip_obs(l) for l in lines) + "\n")
        sched = any(" sched " in l for l in lines)
        ok = True
        for attempt in range(5 if sched else 1):
            out = self._run([harness, "ops", f], driver, self.work("replay.out"))
            failing = [l for l in out if l.startswith(("SPECFAIL", "MISMATCH", "BADLINE"))]
            print(f"--- attempt {attempt + 1}")
            if not sched:
                print(open(self.work("replay.out")).read())
            print("\n".join(out))
            if failing:
                ok = False
                break
        return ok


CHECK = C04()

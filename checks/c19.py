"""C19 — sandboxed expressions cannot change or reveal protected state.  See DESIGN.md §2 C19."""
import importlib.util
import json
import os

from vlib import core, runner
from .base import Check

_GEN = os.path.join(core.ROOT, "gen", "c19_sandbox_guards.py")
_GEN_OUT = os.path.join(core.LEAN, "IcingaProofs", "Gen", "SandboxGuards.lean")

# theorems that do not depend on whether F-C19a (SetConst unguarded) is still open
_COMMON = ["sandbox_noninterference", "sandbox_only_safe_calls", "unsafe_native_call_rejected",
           "sandbox_hidden_fields", "sandbox_hidden_fields_indexer", "sandbox_hidden_fields_reference",
           "sandbox_hidden_fields_deref", "sandbox_hidden_fields_import", "reference_checks_present",
           "import_reads_respect_sandbox", "model_obs_meets_spec",
           "model_native_obs_meets_spec", "translator_covers_model_kinds", "call_and_field_checks_present",
           "safe_callback_invokers_checked", "reference_paths_cannot_write", "documented_guards_present",
           "push_event_noninterference", "push_event_only_safe_calls", "push_event_delivers_only_on_value",
           "model_events_obs_meets_spec", "model_trace_meets_spec",
           "computational_expressions_pure", "computational_obs_meets_spec", "computed_callee_checked",
           "callback_checks_present", "unsafe_callback_rejected", "callback_check_is_necessary", "pinned_secrets_unreadable",
           "sandbox_reads_only_visible", "sandbox_reads_only_visible_pinned", "sandbox_never_reads_pinned_secrets"]
_KNOWN = ["all_mutating_nodes_guarded_partial", "setconst_counterexample", "sandbox_noninterference_repaired"]
# F-C19c (IcingaApplication() cleared the application singleton) was repaired by ac7cac3: the generated destructor flag is false
_FIXED = ["all_mutating_nodes_guarded", "application_dtor_keeps_singleton", "sandbox_noninterference_pinned",
          "application_dtor_guard_is_necessary",
          "driver_natives_meet_hypotheses", "driver_model_trace_meets_spec", "setconst_guard_is_necessary"]


# Behaviour-preserving rewrites of the anchored code on which the whole check flow was run and must stay silent
# (exit 0, no VIOLATION line).  The patches are kept under corpus/C19/negative_controls/ as documentation; the check
# does not apply them.  `first` says what alarmed when the control was first tried and what was made semantic.
NEGATIVE_CONTROLS = [
    {"id": "nc1", "patch": "nc1_while_guard_braces_comment_message.diff",
     "what": "WhileExpression guard with a comment before it, braces and another message text (coordinator)",
     "first": "translator said `unguarded` (regex on the literal first line), driver compared the error KIND read from the message text; "
              "now: guard recognised on the clang AST / normalised statements, driver compares value-vs-error only"},
    {"id": "nc2", "patch": "nc2_coordinator_mixed.diff",
     "what": "coordinator's second control (reordered independent statements and renamed locals in other anchored code)", "first": "silent"},
    {"id": "nc3", "patch": "nc3_guard_in_helper_function_and_macro.diff",
     "what": "guards of Set/SetConst/While/For moved into `static void RequireUnsandboxed(frame, what, di)`, guards of Import/Apply "
             "into a `SANDBOX_GUARD(frame, msg)` do-while(0) macro",
     "first": "translator: six nodes `unguarded`; now the sandboxed path is analysed: a first effective statement that calls a helper with "
              "the frame is followed into the helper (second AST pass / same-file lookup), macros are read after preprocessing"},
    {"id": "nc4", "patch": "nc4_inverted_if_else_and_guard_after_harmless_locals.diff",
     "what": "`if (!frame.Sandboxed) { body } else throw`, `if (frame.Sandboxed == false) {} else throw`, guard after plain local "
             "declarations, call check as nested ifs",
     "first": "translator: three nodes + call check `absent`; now negated conditions continue on the else path, declarations whose "
              "initialisers contain no call/assignment are skipped, conjuncts may be spread over nested ifs"},
    {"id": "nc5", "patch": "nc5_registrations_other_macro_named_constant_moved_reordered.diff",
     "what": "safe functions registered through a new, equivalent macro with a named constant as flag, registrations moved to another "
             "file of lib/base and reordered, prototype methods flagged through a constexpr",
     "first": "translator raised `lost anchor` (flag argument not a literal) and missed the new macro; now registrations are read from "
              "the PREPROCESSED sources (`g++ -E`: any macro reads as the constructor call), named bool constants are resolved, a flag "
              "that cannot be read statically is `unknown` (the implementation's own flag is used, calls stay snapshot-checked)"},
    {"id": "nc6", "patch": "nc6_other_messages_and_exception_subclass.diff",
     "what": "guards throw a subclass of ScriptError with other texts (one as a raw `throw`), hidden-field and callback messages reworded",
     "first": "silent after nc1's change (before it: outcome kind `err` instead of `sandbox`/`hidden` => MISMATCH and a false "
              "only_side_effect_free SPECFAIL); the verdict uses snapshot diff, planted markers and counting wrappers, never texts"},
    {"id": "nc7", "patch": "nc7_no_user_view_check_early_return_and_predicate.diff",
     "what": "Object::GetFieldByName: `if (!sandboxed) return GetField(fid);` first, FANoUserView test behind a static predicate",
     "first": "translator: fieldCheck=false; now early return on `!sandboxed` puts the rest under `sandboxed`, a predicate of the same "
              "file whose return expression is the FANoUserView test counts as that test"},
    {"id": "nc8", "patch": "nc8_renamed_params_locals_braces_comments_moved_lines_call_sites.diff",
     "what": "parameter `frame` and locals renamed, braces/comments/blank lines, init_dict guard moved to the top, Reference::Get flag as "
             "a named constant, frame creation in eventqueue/consolehandler reordered, local in ScriptFrame::InitializeFrame renamed",
     "first": "translator lost its anchor (signature regex demanded the name `frame`), frameInherits=false, refGetSandboxed unreadable; "
              "now parameters are identified by position/declaration, constants are resolved"},
]


def _setconst_known():
    return any(k.get("id") == "F-C19a" and k.get("status") == "known" for k in core.known_findings("C19"))


def _unhex(h):
    try:
        return bytes.fromhex(h).decode("utf-8", "replace")
    except ValueError:
        return "?"


def _opline(line):
    """`X <sig> <op line>` -> the op line."""
    if line.startswith("X "):
        parts = line.split(" ", 2)
        return parts[2] if len(parts) > 2 else ""
    return line


def _src(line):
    for w in line.split(" | ")[0].split():
        if w.startswith("src="):
            return " ;; ".join(_unhex(h) for h in w[4:].split(","))     # E lines: several filters
    return ""


class C19(Check):
    prop = "C19"
    technique = ("Lean 4 proof (noninterference of an abstract interpreter with one constructor per node class of expression.cpp, by induction on "
                 "fuel with a preservation calculus, lifted to the event-stream call site (any list of subscribers' filters) and to whole traces "
                 "of operations; decision procedures over guard/native tables REGENERATED from the source by a translator on "
                 "every run); correspondence by evaluating canned programs for every statement form, every native found by reflection, the "
                 "constructor of every registered type and every "
                 "no_user_view field in sandboxed frames at the production call sites (incl. several /v1/events subscribers per event) with "
                 "deep before/after snapshots")
    level_text = ("Machine-checked theorems (Lean 4 kernel): for EVERY program, environment and fuel, if every mutating node kind is guarded in the guard "
                  "table, the call check is present and natives flagged side-effect free are pure, sandboxed evaluation leaves globals, constants, "
                  "objects, files and registries unchanged (value or error), invokes only natives flagged side-effect free, and cannot read "
                  "no_user_view fields; the same for one event handed to ANY list of event-stream filters (push_event_*: each filter in a fresh "
                  "sandboxed frame, errors swallowed, delivery only on a value) and for EVERY finite trace of operations (model_trace_meets_spec; "
                  "driver_model_trace_meets_spec instantiates it at the model the driver runs, with no hypothesis left that the generated tables "
                  "do not discharge). Unconditionally (EVERY configuration - no guard, no call check, no assumption on natives - sandboxed or not): "
                  "an expression built from operators, literals, reads, array literals, blocks, conditionals, throw, try/except alone changes nothing and invokes "
                  "nothing (computational_expressions_pure / computational_obs_meets_spec); the whitelist test is independent of how the callee was "
                  "computed (computed_callee_checked: any callee expression evaluating to an unflagged native or a script function => sandbox error, "
                  "nothing invoked, no argument evaluated). Confidentiality for EVERY program (sandbox_reads_only_visible, _pinned at the generated tables with "
                  "no hypothesis left, sandbox_never_reads_pinned_secrets): every attribute value of a live object that a sandboxed evaluation hands to the script "
                  "(ghost read log of Object::GetFieldByName, reached from a.b, a[b], method receivers, *r, r.get(), bare names after `using`, callbacks) is of a field "
                  "not hidden from API users. The attributes the property names outright (passwords, password hash, ticket salt) are PINNED "
                  "in Spec.lean (`secretAttrs`): a successful sandboxed read of one of them is a violation whatever flag the implementation reports "
                  "(pinned_secrets_unreadable; the harness reads them through all 16 paths also when reflection says `visible`). The guard table, the Application destructor flag, call/field checks, the native flags and the callback-invoker checks are "
                  "extracted from /repo on every run and the table theorems are re-decided by the kernel. The real evaluator is run on one "
                  "program per statement form (incl. assignments as members of dictionary literals, method calls on hidden receivers, the "
                  "constructor of every registered type; calls whose CALLEE is a computed expression - ||, &&, nested, a call returning the function, "
                  "{{ }} - for every kind of function without the flag; purely computational expressions - every binary operator x operand pairs "
                  "and chains A op B op C over live shared containers, null, unset custom variables, literals) x 5 production call sites, ~135 reflected natives x argument tuples, every no_user_view "
                  "field of every type through 16 read paths, and ~290 events with 1-6 subscribers through EventsSubscriber + "
                  "ApiEvents::CheckResultHandler -> EventsFilter::Push, with deep snapshots of the global namespace tree, all config objects, the "
                  "data directory and the application singleton; the model configured by the generated tables predicts outcome class, delivery "
                  "and changed-bit, and the spec predicate is evaluated on the implementation's observations")
    level_note = ("Trusted: Lean kernel (+ propext, Classical.choice, Quot.sound), the translator's regexes (anchors lost => tie broken), harness/driver. "
                  "Modelled since round 4: the six higher-order natives of array-script.cpp (sort/map/reduce/filter/any/all) with the per-native callback test "
                  "as a GENERATED flag (callback_checks_present; callback_check_is_necessary shows the model is sensitive to it), so the all-programs theorems cover "
                  "functions invoked as callbacks. Not modelled: the semantics of the other natives (parameters; 'flagged safe => pure' is an assumption exercised by snapshot diffing), "
                  "value-level semantics of the full DSL (containers hold strings; model values are by-value, so aliasing of shared containers - an operator or "
                  "native handing back a LIVE container that a later node appends to - cannot arise in the model: it is exercised by the harness's operator/"
                  "whitelisted-native sweeps over live containers with the deep snapshot, not proved), "
                  "parsing, HTTP parameter parsing of the handlers. F-C19a (const in a sandbox) was repaired by 03364e3; known: "
                  "F-C19b (sandboxed console serialises hidden fields of a returned object). F-C19c (`IcingaApplication()` in a sandboxed frame "
                  "cleared Application::m_Instance) was repaired by ac7cac3; its witness stays in corpus/C19 as a regression case.")
    trusted_base = [
        "gen/c19_sandbox_guards.py: guards recognised semantically (clang-14 JSON AST of expression.cpp, token-level statement/condition normaliser as "
        "fallback and for object.cpp/reference.cpp; anchored regexes for the native registrations); its self-test corpus gen/c19_selftest/ "
        "(equivalent spellings recognised, removed/weakened guards rejected) runs on every check",
        "which error a refusal is (sandbox / hidden / other) is read from message texts and only counted; the verdict uses value-vs-error, "
        "the snapshot diff, planted markers and counting wrappers around every native without the side-effect-free flag",
        "higher-order natives: which element tuples the callback is invoked with is abstracted (one per element; neighbouring pairs for reduce/sort), "
        "their results are values of the right shape only",
        "modelled, not verified: what each native function does (a parameter of the model: name -> (side-effect-free flag, arbitrary state transformer)); "
        "the hypothesis `SafeNativesPure` is exercised, not proved, by calling every reflected native with live objects and diffing deep snapshots",
        "abstract values: containers hold strings; operators are modelled at the level of value TYPES (which operand types +, -, *, /, %, bit and comparison "
        "operators accept, what they return, when they raise: value-operators.cpp:208-298 etc.; outcome compared for + and - over all operand-type pairs and "
        "chains), numbers are integers; operators never touch state in either",
        "event streams: `delivered` is read from the private inbox queue of each EventsSubscriber; `a filter raises in a sandboxed frame` is "
        "observed in a frame the harness builds exactly as eventqueue.cpp does (Sandboxed = true set by the harness itself)",
        "constructor effects: the model knows one mechanism (`appDerivedTypes` in Tables.lean, switched by the flag the translator reads from "
        "Application::~Application in application.cpp; off since ac7cac3); every other registered type's constructor is exercised by the harness with the deep snapshot",
    ]
    assumptions = [
        "every native function flagged side-effect free leaves globals, constants, config objects and files unchanged (SafeNativesPure)",
        "the production call sites driven by the harness (GetFilterTargets, EventQueue::ProcessEvent, EventsFilter::Push, both console "
        "endpoints) are the only places that evaluate user-supplied code with Sandboxed = true",
        "natives flagged side-effect free do not hand back hidden attribute values (exercised by the serialiser sweep, not proved)",
        "the pinned secret attributes of types that are not built into the harness (IdoMysqlConnection, IdoPgsqlConnection, IcingaDB) are listed but not exercised",
        "deep snapshot = global namespace tree (depth 7, incl. type prototypes and frozen flags), all fields of all registered config objects, config item counts, data directory listing+content hashes, Application::GetInstance() != null",
    ]

    @property
    def required_theorems(self):
        return _COMMON + (_KNOWN if _setconst_known() else _FIXED)

    # ------------------------------------------------------------------ translator
    def generate(self):
        spec = importlib.util.spec_from_file_location("c19_sandbox_guards", _GEN)
        mod = importlib.util.module_from_spec(spec)
        spec.loader.exec_module(mod)
        import sys
        thorough = ("thorough" in sys.argv) or os.environ.get("VERIF_TIER") == "thorough"
        # the translator's own self-test: equivalent spellings must be recognised, removed/weakened guards must not
        # (token-level extractor always; the clang-AST extractor over the compilable fragments in the thorough tier)
        fails, n = mod.selftest(use_ast=thorough)
        self.translator_selftest = {"expectations": n, "failures": fails, "with_ast": thorough}
        if fails:
            raise core.TieBroken("translator:C19:self-test", "\n".join(fails))
        try:
            with core.Lock("lake"):
                t = mod.generate(core.REPO, _GEN_OUT, core.BUILD, self.work("astcache", "x")[:-2])
        except mod.Lost as e:
            raise core.TieBroken("translator:C19:anchor-lost", str(e))
        self.tables = t

    # ------------------------------------------------------------------ running
    def _env(self):
        tmp = self.work("tmp", "x")
        return dict(os.environ, VERIF_C19_TMP=os.path.dirname(tmp))

    def _run(self, harness_cmd, driver, save):
        hrc, herr, drc, lines = runner.pipeline(harness_cmd, [driver], save, env=self._env())
        if hrc != 0:
            raise core.TieBroken("harness:c19:run", f"rc={hrc}\n{herr}")
        if drc != 0:
            raise core.TieBroken("driver:c19:run", "\n".join(lines[-20:]))
        return lines

    def _replay_lines(self, harness, driver, lines, tag="shrink"):
        f = self.work(tag + ".ops")
        with open(f, "w") as fh:
            fh.write("\n".join(runner.strip_obs(l) for l in lines) + "\n")
        out = self._run([harness, "ops", f], driver, self.work(tag + ".out"))
        return out, open(self.work(tag + ".out")).read().splitlines()

    def correspondence(self, tier, seed, harness, driver):
        res = runner.Result()
        all_lines = []
        outs = []
        # corpus first
        cdir = os.path.join(core.ROOT, "corpus", "C19")
        for f in sorted(os.listdir(cdir)) if os.path.isdir(cdir) else []:
            if f.endswith(".ops"):
                save = self.work("corpus_" + f + ".out")
                outs.append((save, self._run([harness, "ops", os.path.join(cdir, f)], driver, save)))
        seeds = [seed] if tier == "quick" else [seed, seed + 1000, seed + 2000]
        for s in seeds:
            save = self.work(f"gen_{s}.out")
            outs.append((save, self._run([harness, "gen", "--seed", str(s), "--tier", tier], driver, save)))
        stats = {}
        for save, lines in outs:
            st = {}
            for l in lines:
                if l.startswith("STATS"):
                    st = {k: int(v) for k, v in core.parse_kv(l).items()}
            if not st:
                raise core.TieBroken("driver:c19:no-stats", "\n".join(lines[-20:]))
            for k, v in st.items():
                stats[k] = stats.get(k, 0) + v
        res.stats = stats
        res.evaluations = stats["cases"]
        res.distinct_nontrivial = stats["nontrivial"]
        res.traces_validated = stats["cases"]
        res.exhaustive = False
        res.rule = ("every canned program (one per statement form / operator / left-hand-side shape incl. assignments through missing keys, through "
                    "references and as MEMBERS OF DICTIONARY LITERALS (rooted l-values, aliases of live containers, nested literals) / method call on a "
                    "hidden or COMPUTED receiver / unsafe native as callback of every higher-order native / exfiltration attempt) at five call sites (GetFilterTargets with a "
                    "filter (+ filter_vars bound to live shared values) for a user without and WITH a permission filter, the event site = EventQueue::SetFilter/ProcessEvent "
                    "AND EventsSubscriber + ApiEvents::CheckResultHandler -> EventsFilter::Push, and BOTH "
                    "console endpoints sandboxed: ConsoleHandler::ExecuteScriptHelper and AutocompleteScriptHelper (word = program + '.x')); "
                    "the constructor call T() / T(1) of every registered type; one event handed to 1-6 /v1/events subscribers with different filters "
                    "(every unordered pair of an 18-filter pool of values, errors, refused statements, unsafe calls, hidden reads + seeded larger subsets); "
                    "seeded nested programs combining the statement forms; COMPUTED callees (9 callee-producing expression forms x 13 functions: prototype methods of "
                    "namespaces/arrays/dictionaries/objects, global functions, Internal.*, script closures, flagged controls); purely COMPUTATIONAL expressions over live "
                    "shared containers (20 binary operators x ordered operand pairs from {4 live arrays incl. a frozen one, 2 live dictionaries, null, an unset "
                    "custom variable, array/dictionary literals, number, string}; chains A op B op C and A op (B op C) exhaustively for the operators whose result "
                    "can be a container (+, -, &&, ||), seeded mixed chains of 3-4 operands, inside `in`, `!`, array literals and conditionals); every no_user_view field of every instantiable type (markers planted) read as "
                    "obj.f, obj[\"f\"], *(&obj.f), (&obj.f).get(), bare identifier after `using obj`, for-in, as receiver of a method call (obj.f.len(), .contains, .to_string, "
                    ".len.call), as constructor argument, via get_object/get_objects/filter_vars at every site, "
                    "plus whole-object serialisers; every whitelisted function/prototype method with a live UNSORTED shared container (object attribute, "
                    "list/dict nested in vars, global, frozen array) in every argument position and as receiver, 1-3 arguments (order-sensitive snapshot, "
                    "live state restored after a detected change); every function and "
                    "prototype method reachable from the global namespace (reflection at run time) called with its declared arity from a pool of live "
                    "objects/shared containers/namespaces/functions plus seeded random tuples. Programs run in forked children under a per-program alarm "
                    "(death/hang => X line => SPECFAIL no_crash/no_hang). evaluations = sandboxed evaluations, each followed by a deep "
                    "snapshot diff; non-trivial = evaluations that ended in a value or in a sandbox/hidden-field refusal (not in an unrelated error)")
        gen_save = outs[-1][0]
        raw = open(gen_save, errors="replace").read().splitlines()
        res.samples = [l.split(" src=")[0] + " src=" + repr(_src(l)) + " | " + l.split(" | ")[-1] for l in raw if l[:2] in ("P ", "N ", "H ", "E ")][::max(1, len(raw) // 8)][:8]
        res.extra = {"generated_tables": {"node_kinds": len(self.tables["nodeGuards"]),
                                          "guarded": [k for k, v in self.tables["nodeGuards"] if v],
                                          "natives": len(self.tables["natives"]),
                                          "natives_safe": sum(1 for _, v in self.tables["natives"] if v),
                                          "callCheck": self.tables["callCheck"], "fieldCheck": self.tables["fieldCheck"],
                                          "initDictOff": self.tables["initDictOff"], "refGetSandboxed": self.tables["refGetSandboxed"],
                                          "importReadSandboxed": self.tables["importReadSandboxed"],
                                          "appDtorClearsSingleton": self.tables.get("appDtorClearsSingleton"),
                                          "assignments_to_Sandboxed_in_lib": self.tables["sandboxedAssignments"],
                                          "extractor": self.tables["method"], "ast_vs_token_level_disagreements": self.tables["ast_text_disagree"]},
                     "translator_selftest": getattr(self, "translator_selftest", {})} if hasattr(self, "tables") else {}

        seen = set()
        per_clause = {}
        known_seen = set()
        replays = 0
        for save, lines in outs:
            raw = open(save, errors="replace").read().splitlines()
            for l in lines:
                if l.startswith("BADLINE"):
                    res.corr_failures.append(runner.Finding("corr", "protocol", [l]))
                    continue
                if not (l.startswith("SPECFAIL") or l.startswith("MISMATCH")):
                    continue
                kv = core.parse_kv(l)
                ln = int(kv.get("line", "0"))
                case = [raw[ln - 1]] if 0 < ln <= len(raw) else []
                # every case is a single self-contained line: replaying it alone IS the minimal witness
                shown = case
                still = True
                op = _opline(case[0]) if case else ""
                if l.startswith("SPECFAIL"):
                    # at most three concrete witnesses per clause (a broken sandbox fails hundreds of programs)
                    pk = (kv.get("clause"), kv.get("leak", ""))
                    prekey = ("spec", kv.get("clause"), op.split()[1] if len(op.split()) > 1 else "", _src(op))
                    if prekey in seen:
                        continue
                    # witnesses of a KNOWN finding do not use up the clause's three slots (one report per known finding)
                    pre = {"driver": l, "src": _src(op), "site": op.split()[1] if len(op.split()) > 1 else "", "kind": op[:1],
                           "died": bool(case) and case[0].startswith("X "),
                           "obs": case[0].split(" | ")[-1] if case and " | " in case[0] else ""}
                    kid = next((k.get("id") for k in core.known_findings("C19") if k.get("status") == "known"
                                and self.matches_known(k, runner.Finding("spec", "pre", case, pre, pre))), None)
                    if kid is not None:
                        if kid in known_seen:
                            continue
                        known_seen.add(kid)
                        pk = ("known", kid)
                    elif per_clause.get(pk, 0) >= 3:
                        continue
                    per_clause[pk] = per_clause.get(pk, 0) + 1
                else:
                    # a badly broken tree disagrees with the model on hundreds of lines: five are reported, and only those
                    # are replayed (each replay starts a fresh Icinga process) — bounded BEFORE the replay, not after it
                    prekey = ("corr", kv.get("what"), _src(op))
                    if prekey in seen or len([k for k in seen if k[0] == "corr"]) >= 5:
                        continue
                # replays are bounded (24 per run; a program that killed or hung the evaluator — a hang costs the per-program
                # alarm again — only once per clause): further witnesses are reported as observed in the run
                died = bool(case) and case[0].startswith("X ")
                if case and case[0][:2] in ("P ", "N ", "H ", "X ", "E ") and replays < 24 and not (died and per_clause.get(pk, 0) > 1):
                    replays += 1
                    dout, shown = self._replay_lines(harness, driver, case)
                    shown = [x for x in shown if x.strip()]
                    still = any(x.startswith(l.split()[0]) for x in dout)
                data = {"driver": l, "src": _src(op) if case else "", "reproduces_alone": still,
                        "site": op.split()[1] if case and len(op.split()) > 1 else "",
                        "kind": op[:1] if case else "", "died": case[0].startswith("X ") if case else False,
                        "obs": shown[0].split(" | ")[-1] if shown and " | " in shown[0] else ""}
                if l.startswith("SPECFAIL"):
                    key = ("spec", kv.get("clause"), data["site"], data["src"])
                    if key in seen:
                        continue
                    seen.add(key)
                    res.spec_failures.append(runner.Finding("spec", f"spec:C19:{kv.get('clause')}:{data['site']}:{data['src'][:60]}", shown, data, data))
                else:
                    key = ("corr", kv.get("what"), data["src"])
                    if key in seen or len([k for k in seen if k[0] == "corr"]) >= 5:
                        continue
                    seen.add(key)
                    res.corr_failures.append(runner.Finding("corr", kv.get("what", "?"), shown, data, data))
        return res

    # ------------------------------------------------------------------ known findings (narrow classifiers)
    def matches_known(self, entry, finding):
        d = finding.classifier_data or {}
        if finding.kind != "spec" or not d:
            return False
        drv = d.get("driver", "")
        obs = d.get("obs", "")
        src = d.get("src", "")
        cls = entry.get("classifier")
        if cls == "c19_setconst_in_sandbox":
            # exactly: a `const NAME = ...` statement evaluated to a value and only the global namespace changed
            import re
            return ("clause=protected_state_unchanged" in drv and d.get("kind") == "P" and obs.startswith("ok chg=g--- ")
                    and re.search(r"(^|[{;]\s*)const\s+[A-Za-z_][A-Za-z0-9_]*\s*=", src) is not None
                    and "root=SetConstExpression" in (finding.case_lines[0] if finding.case_lines else "")
                    or ("clause=protected_state_unchanged" in drv and d.get("kind") == "P" and obs.startswith("ok chg=g--- ")
                        and re.fullmatch(r"try \{ const [A-Za-z0-9_]+ = 1; throw \"x\" \} except \{ 1 \}", src) is not None))
        if cls == "c19_console_serializes_hidden_fields_of_returned_object":
            # exactly: sandboxed console, evaluation succeeded, nothing changed, and the secret occurs ONLY as the
            # `password` field of a config object that the console serialised (leak=2), never in a computed value
            return ("clause=no_hidden_value_in_result" in drv and "leak=2" in drv and d.get("site") == "console"
                    and obs.startswith("ok chg=---- ") and " leak=2" in (" " + obs) and (" inv=" not in obs or obs.rstrip().endswith(" inv=0")))
        return False

    def replay(self, path, harness, driver):
        data = json.load(open(path))
        lines = [l for l in data.get("case", []) if l[:2] in ("P ", "N ", "H ", "X ", "E ")]
        out, shown = self._replay_lines(harness, driver, lines, "replay")
        for l in [x for x in shown if x.strip()]:
            print(l.split(" src=")[0] + " src=" + repr(_src(l)) + " | " + l.split(" | ")[-1])
        print("\n".join(out))
        return not any(l.startswith(("SPECFAIL", "MISMATCH", "BADLINE")) for l in out)


CHECK = C19()

"""C15 — config language: evaluation matches the reference, deterministic, never crashes.  See DESIGN.md §2 C15."""
import importlib.util
import json
import os
import re

from vlib import core, runner
from .base import Check

_GEN = os.path.join(core.ROOT, "gen", "c15_precedence.py")
_GEN_OUT = os.path.join(core.LEAN, "IcingaProofs", "Gen", "Precedence.lean")


def _unhex(h):
    try:
        return bytes.fromhex(h).decode("latin-1") if h != "-" else ""
    except ValueError:
        return "?"


# Behaviour-preserving rewrites of the anchored code on which the full flow was run (mutated object files / a reformatted
# grammar in scratch) and must stay silent; patches (documentation only, not applied by the check): corpus/C15/negative_controls/.
NEGATIVE_CONTROLS = [
    "nc1_translator_reformat: %left/%right block re-broken over several lines with comments, two NEW tokens at levels outside the 13 "
    "documented ones (T_SET_NULLISH, %right T_PIPELINE), MakeRBinaryOp renamed, one rule action spread over lines, comment after a lexer rule",
    "nc2_messages: other wording of the operator type errors, division errors, recursion error, array bounds, undefined variable, "
    "not-callable and `in` errors (error classes are not read from message texts; the recursion/parser-capacity wordings are calibrated "
    "from the build at harness start)",
    "nc3_iteration_order: array == compared from the back, Array::Contains as a reverse hand-written loop, union() via vector+sort+unique "
    "instead of std::set",
    "nc4_refactor_guards: Defer in Expression::Evaluate replaced by an equivalent try/catch that gives the level back on every path, && and "
    "`in` with renamed locals / reordered guards / early return, `Depth >= limit` for `Depth + 1 > 300`, call locals built by ShallowClone",
    "nc5_same_binary64: number + via temporaries in swapped order, % as a - (a / b) * b, Convert::ToString via snprintf, lexer `* 60 * 60` "
    "as `* 3600.0` (literal values are checked against the documented exact value with tolerance 2^-50, not bit for bit; inside the "
    "tolerance the lexer's value is handed to the model)",
]


class C15(Check):
    prop = "C15"
    technique = ("Lean 4 proof about a definitional interpreter (heap, frames, depth limit 300, one case per DoEvaluate of expression.cpp, "
                 "value-operators.cpp transcribed, number type a class parameter) + operator-precedence table REGENERATED from config_parser.yy/"
                 "config_lexer.ll on every run and compared by the kernel with the documented table; correspondence by differential execution of "
                 "type-directed random ASTs printed minimally (per the generated table) and fully parenthesised through ConfigCompiler::CompileText "
                 "+ ScriptFrame, twice, in forked children; hostile texts/byte strings only have to return or throw")
    level_text = ("Machine-checked theorems (Lean 4 kernel) for EVERY program of the sub-language, environment and fuel: the generated grammar "
                  "precedence/associativity equals the reference table for levels 1-13, the reference table IS the operator table of "
                  "doc/17-language-reference.md (read from the document on every run: same operators at every level 1-13, rows sorted), every two "
                  "of the 20 binary operators are ordered by config_parser.yy exactly as by the document (all 400 pairs) and every operator of the "
                  "model has exactly one documented row; ONE operand-class table for all 16 binary operators (value of "
                  "which type / type error / division error / element-wise on the heap) to which the transcription of value-operators.cpp conforms; "
                  "evaluation is a function; every evaluation ends in a value, a script error, an explicitly unmodelled case or fuel exhaustion and "
                  "NEVER in an internal error of the model (heap well-formedness invariant over all tasks and all ~45 natives); the frame-depth "
                  "high-water mark never exceeds 300 for any task, frame and state (invariant by induction on fuel; an evaluation entered at the "
                  "limit yields the recursion error); && and || do not evaluate the right "
                  "operand when the left decides and return operands; function-body locals do not leak, use() captures at definition time; "
                  "break/continue/return stop at the innermost loop/function (while AND for; a call answers a plain value whatever code its body ends "
                  "with; try/except forwards return/break/continue from the body and from the handler); try catches script errors; an array or "
                  "dictionary literal answers an address that was free before its evaluation (for all elements/frames/states: a NEW container every "
                  "time); a call's answer does not depend on the caller's locals/this; an array equals itself and two different arrays of different length are "
                  "unequal whatever their elements (for every heap); `!=` answers the negation of `==` and `!in` the negation of `in` for all operands, "
                  "frames, states and fuel (same evaluation order, errors and final state); `array - []` is a new array with exactly the left "
                  "operand's elements; Array#join of the empty array is Empty and of strings x0..xn is "
                  "x0+sep+x1+...+sep+xn with the state unchanged (for every separator, list and state, through the native's dispatch); every text of the literal grammar D+(.D+)?(ms|s|m|h|d)? is "
                  "split by the lexer model into (digits, fraction length, suffix) and valued by the specification as digits*10^-n*documented factor, "
                  "and the lexer's operation sequence per suffix is, read exactly, multiplication by that factor; whole trace: every in-protocol "
                  "answer of the model for every program passes every clause of Spec.checkProgram. The model is run (Float = binary64) on "
                  "every generated AST and must reproduce the real evaluator's canonical result bit for bit — number and duration literals included: "
                  "the model computes their values itself (Literal.lean) and agreed bit for bit with the real lexer on every literal of every run; "
                  "the spec predicate (no crash, deterministic across compilations AND across two evaluations of one compiled expression, "
                  "parenthesisation-independent both for the minimal parentheses of the grammar's table (precedence_as_declared) and for the minimal "
                  "parentheses of the DOCUMENT's table (precedence_as_documented: a text that relies on the documented precedence/associativity "
                  "means what its fully parenthesised form means — a concrete failing program when grammar and document drift apart), every literal the real lexer evaluated within 2^-50 of its documented exact value, the `expression (result)` examples of the "
                  "document's operator table — read from doc/17 on every run (30 today), the expression's AST from a template whose printing must "
                  "give back the document's text, the result from the document — evaluate to their documented results "
                  "(reference_example_as_documented; proved for the model by reference_examples_hold_in_model; F-C15g `~true` repaired by 86ab6e0), "
                  "and the family clauses against the reference's answer) is evaluated on the implementation's own observations")
    level_note = ("Trusted: Lean kernel (+ propext, Classical.choice, Quot.sound), gen/c15_precedence.py (anchored regexes; lost anchor => tie broken), "
                  "harness/driver. Not proved, only exercised: memory safety/crash-freedom of the C++ (forked children; crashes found on the unchanged "
                  "tree: F-C15a/d repaired by 09db53a/13754a5, F-C15f repaired by 1f98393, F-C15b/c known; documentation/code divergence known: F-C15e Array#join of Booleans; F-C15g `~true` repaired by 86ab6e0), IEEE arithmetic (Float is opaque to the kernel; no theorem depends on it), parsing beyond the "
                  "precedence table (covered by the two printings). Outside the modelled domain (reported as skipped_unmodelled, not compared): C++ "
                  "undefined conversions (static_cast<int> out of range, shifts >= 32), ToString of containers, natives called with arguments the "
                  "function wrapper would convert, Array#reduce callbacks that mutate the array being reduced, sort with a comparator, references, namespaces, "
                  "include/object/apply.")
    trusted_base = [
        "gen/c15_precedence.py (anchored regexes over config_parser.yy / config_lexer.ll; the same table feeds the Lean theorem and the harness's printer)",
        "documented precedence table: read from doc/17-language-reference.md by gen/c15_precedence.py on every run (anchored row regex; lost anchor => "
        "tie broken) into Gen/Precedence.lean (`documented`) and into the harness's third printer; `reference_matches_document` proves the hand-written "
        "`reference` of IcingaProofs/C15.lean equal to it. Still transcribed by hand: arity per level (1 postfix, 2 prefix, 3-13 binary: the document's "
        "Examples column) and associativity (the document gives none: left for binary levels, none for relational/equality as the grammar declares "
        "and the harness confirms by `a < b < c` being a syntax error) — in C15.lean and in DocAssoc() of harness/c15.cpp",
        "Float (binary64) in the compiled driver computes what the C++ double computes; number formatting re-implemented exactly over the bit pattern",
        "errors are compared as value / script error / recursion error only; the recursion error and the parser's capacity error are recognised by "
        "comparing with the message this very build produces for a calibration program (no wording is hard-coded)",
        "number/duration literals: the model computes the value (one correctly rounded division for the decimal, then the lexer's multiplications); "
        "the real lexer's binary64 is checked against the documented exact value with relative tolerance 2^-50 (the reference fixes no "
        "intermediate arithmetic) and would replace the model's value only inside that tolerance (STATS lit_tolerated; 0 on the unchanged tree)",
        "second evaluation of one compiled expression happens in the same child process and thread after removing the user globals",
    ]
    assumptions = [
        "generated programs stay inside the modelled domain except where the driver reports skipped_unmodelled",
        "a crash/timeout of the evaluator is observed through the exit status of a forked child (alarm 20 s / 5 s)",
        "each program runs in a fresh ScriptFrame; user globals g0..g3/gf0..gf3 are removed between programs",
    ]
    required_theorems = [
        "precedence_matches_reference", "operator_typing", "operator_typing_heap", "deterministic", "total_or_error",
        "no_internal_error", "depth_bounded", "depth_bounded_program", "recursion_error_at_limit", "and_or_short_circuit",
        "scoping_var_does_not_leak", "scoping_use_captures_at_definition", "loop_control", "try_catches_script_errors", "array_join_counterexample",
        # round 3
        "array_literal_creates_new_container", "dict_literal_creates_new_container", "try_forwards_flow_control", "loop_control_for",
        "call_absorbs_flow_control", "scoping_call_ignores_caller_scope", "model_trace_meets_spec", "literal_grammar",
        "literal_scale_is_documented_factor", "callback_iteration_over_snapshot",
        # round 4
        "reference_matches_document", "binary_operators_ordered_as_documented", "every_operator_documented_once",
        "array_equality_identity_and_length", "array_join_folds_with_separator", "operator_ne_negates_eq", "not_in_negates_in",
        "array_minus_empty_array", "reference_examples_hold_in_model",
    ]

    # ------------------------------------------------------------------ translator
    def _tbl(self):
        return self.work("precedence.tbl")

    def generate(self):
        spec = importlib.util.spec_from_file_location("c15_precedence", _GEN)
        mod = importlib.util.module_from_spec(spec)
        spec.loader.exec_module(mod)
        try:
            with core.Lock("lake"):
                self.table = mod.generate(core.REPO, _GEN_OUT, self._tbl())
        except mod.Lost as e:
            raise core.TieBroken("translator:C15:anchor-lost", str(e))

    # ------------------------------------------------------------------ running
    def _env(self):
        return dict(os.environ, VERIF_C15_PREC=self._tbl())

    def _run(self, harness_cmd, driver, save):
        if not os.path.exists(self._tbl()):
            self.generate()
        hrc, herr, drc, lines = runner.pipeline(harness_cmd, [driver], save, env=self._env())
        if hrc != 0:
            raise core.TieBroken("harness:c15:run", f"rc={hrc}\n{herr}")
        if drc != 0:
            raise core.TieBroken("driver:c15:run", "\n".join(lines[-20:]))
        return lines

    def _text(self, harness, line, which="min"):
        """program text of one P/X line: `min` = minimal parentheses per the grammar's table, `doc` = per the documented table"""
        f = self.work("text.ops")
        with open(f, "w") as fh:
            fh.write(runner.strip_obs(line) + "\n")
        rc, out = core.run([harness, "text", f], env=self._env())
        if which == "doc":
            m = re.search(r"\n--- \(doc\)\n(.*?)\n--- \(end\)", out, re.S)
            if m:
                return m.group(1)
        m = re.search(r"^--- [PX] [^\n]*\n(.*?)(\n--- \(full\)|\Z)", out, re.S | re.M)
        return m.group(1) if m else ""

    def _replay_lines(self, harness, driver, lines, tag="shrink"):
        f = self.work(tag + ".ops")
        with open(f, "w") as fh:
            fh.write("\n".join(runner.strip_obs(l) for l in lines) + "\n")
        out = self._run([harness, "ops", f], driver, self.work(tag + ".out"))
        return out, open(self.work(tag + ".out"), errors="replace").read().splitlines()

    # --- shrinking of a P line: replace a subtree by one of its children / drop a statement, as long as it still fails
    @staticmethod
    def _parse(toks, i=0):
        """-> (tree, next index); tree = [head tokens..., children...] with children as lists"""
        t = toks[i]
        if t == "n":
            return ["n", toks[i + 1], toks[i + 2]], i + 3
        if t in ("s", "v"):
            return [t, toks[i + 1]], i + 2
        fixed = {"null": 0, "b0": 0, "b1": 0, "this": 0, "locals": 0, "globals": 0, "brk": 0, "cont": 0, "~": 1, "!": 1, "neg": 1, "pos": 1,
                 "par": 1, "ret": 1, "throw": 1, "land": 2, "lor": 2, "in": 2, "!in": 2, "idx": 2, "while": 2, "try": 2, "if": 2, "ife": 3, "tern": 3}
        head, n = [t], 0
        if t in fixed:
            n, i = fixed[t], i + 1
        elif t in ("op", "set"):
            head, n, i = [t, toks[i + 1]], 2, i + 2
        elif t in ("dot", "var"):
            head, n, i = [t, toks[i + 1]], 1, i + 2
        elif t in ("arr", "dict", "blk"):
            n, i = int(toks[i + 1]), i + 2
        elif t == "call":
            n, i = int(toks[i + 1]) + 1, i + 2
        elif t == "for":
            head, n, i = [t, toks[i + 1], toks[i + 2]], 2, i + 3
        elif t == "ifc":
            head, n, i = [t, toks[i + 1], toks[i + 2]], 2 * int(toks[i + 1]) + (1 if toks[i + 2] == "1" else 0), i + 3
        elif t in ("fn", "fndecl"):
            j = i + 1
            if t == "fndecl":
                j += 1
            np = int(toks[j]); j += 1 + np
            nu = int(toks[j]); j += 1 + nu
            head, n, i = toks[i:j], 1, j
        else:
            raise ValueError(t)
        kids = []
        for _ in range(n):
            k, i = C15._parse(toks, i)
            kids.append(k)
        return {"h": head, "k": kids}, i

    @staticmethod
    def _emit(t):
        if isinstance(t, list):
            return t
        h, k = t["h"], t["k"]
        out = list(h)
        if h[0] in ("arr", "dict", "blk"):
            out.append(str(len(k)))
        elif h[0] == "call":
            out.append(str(len(k) - 1))
        for c in k:
            out += C15._emit(c)
        return out

    def _shrink_p(self, harness, driver, line, still_fails):
        toks = runner.strip_obs(line).split()
        if len(toks) > 1500:      # deep-nesting cases are already minimal in kind; do not recurse over them in Python
            return line
        try:
            tree, _ = self._parse(toks, 2)
        except (ValueError, IndexError, RecursionError):
            return line
        pre = toks[:2]
        budget = [40]

        def candidates(t, path=()):
            if isinstance(t, list):
                return
            if t["h"][0] in ("while", "ifc"):      # never edit a loop / an else-if chain (its shape is in the head): a removed increment makes both worlds spin
                return
            for i, c in enumerate(t["k"]):
                yield path + (i,)
                yield from candidates(c, path + (i,))

        def get(t, path):
            for i in path:
                t = t["k"][i]
            return t

        def replaced(t, path, new):
            if not path:
                return new
            t2 = {"h": t["h"], "k": list(t["k"])}
            t2["k"][path[0]] = replaced(t["k"][path[0]], path[1:], new)
            return t2

        def removed(t, path):
            if len(path) == 1:
                t2 = {"h": t["h"], "k": list(t["k"])}
                del t2["k"][path[0]]
                return t2
            t2 = {"h": t["h"], "k": list(t["k"])}
            t2["k"][path[0]] = removed(t["k"][path[0]], path[1:])
            return t2

        changed = True
        while changed and budget[0] > 0:
            changed = False
            for path in list(candidates(tree)):
                if budget[0] <= 0:
                    break
                try:
                    node = get(tree, path)
                    parent = get(tree, path[:-1])
                except (IndexError, KeyError, TypeError):
                    continue
                trials = []
                if not isinstance(parent, list) and parent["h"][0] in ("blk", "dict", "arr") and len(parent["k"]) > 1:
                    trials.append(removed(tree, path))
                if not isinstance(node, list):
                    for c in node["k"]:
                        if path and not (not isinstance(c, list) and c["h"][0] == "blk"):
                            trials.append(replaced(tree, path, c))
                for tr in trials:
                    budget[0] -= 1
                    cand = " ".join(pre + self._emit(tr))
                    if still_fails(cand):
                        tree = tr
                        changed = True
                        break
                if changed:
                    break
        return " ".join(pre + self._emit(tree))

    # ------------------------------------------------------------------ the document's own examples
    def _doc_examples(self, harness):
        """One program `[ expression, documented result ]` (family `docex`) per `expression (result)` example that the translator read from
        the operator table of doc/17 ON THIS RUN.  The expression's AST comes from corpus/C15/reference_example_templates.tpl (hand-made
        ASTs; the harness's printer must give back the document's text, else the tie is broken), the RESULT from the document."""
        if not hasattr(self, "table"):
            self.generate()
        tpl = os.path.join(core.ROOT, "corpus", "C15", "reference_example_templates.tpl")
        exprs = []
        for l in open(tpl).read().splitlines():
            toks = l.split()
            if toks[:1] == ["P"] and toks[2:6] == ["blk", "1", "arr", "2"]:
                _, nxt = self._parse(toks, 6)
                exprs.append(toks[6:nxt])
        f = self.work("docex_templates.ops")
        with open(f, "w") as fh:
            for i, e in enumerate(exprs):
                fh.write("P t%d blk 1 %s\n" % (i, " ".join(e)))
        rc, out = core.run([harness, "text", f], env=self._env())
        norm = lambda s: re.sub(r"[\s()]", "", s)
        texts = {}
        for m in re.finditer(r"^--- P t(\d+) \(min\)\n(.*?)\n--- \(full\)", out, re.S | re.M):
            texts[norm(m.group(2))] = exprs[int(m.group(1))]
        lines = []
        for n, (expr, result) in enumerate(self.table["examples"], 1):
            ast = texts.get(norm(expr))
            if ast is None:
                raise core.TieBroken("translator:C15:doc-example-without-template", "doc/17 operator table example `%s (%s)` has no AST template in %s" % (expr, result, tpl))
            if result in ("true", "false"):
                r = ["b1" if result == "true" else "b0"]
            elif result.startswith('"'):
                r = ["s", result[1:-1].encode().hex() or "-"]
            elif result.startswith("-"):
                r = ["neg", "n", "0", result[1:]]
            else:
                r = ["n", "0", result]
            lines.append("P docex%d blk 1 arr 2 %s %s" % (n, " ".join(ast), " ".join(r)))
        g = self.work("docex_generated.ops")
        with open(g, "w") as fh:
            fh.write("\n".join(lines) + "\n")
        return g

    def correspondence(self, tier, seed, harness, driver):
        res = runner.Result()
        outs = []
        gen_ops = self._doc_examples(harness)
        save = self.work("docex_generated.out")
        outs.append((save, self._run([harness, "ops", gen_ops], driver, save)))
        cdir = os.path.join(core.ROOT, "corpus", "C15")
        for f in sorted(os.listdir(cdir)) if os.path.isdir(cdir) else []:
            if f.endswith(".ops"):
                save = self.work("corpus_" + f + ".out")
                outs.append((save, self._run([harness, "ops", os.path.join(cdir, f)], driver, save)))
        save = self.work(f"gen_{seed}.out")
        outs.append((save, self._run([harness, "gen", "--seed", str(seed), "--tier", tier], driver, save)))
        stats = {}
        for save, lines in outs:
            st = {}
            for l in lines:
                if l.startswith("STATS"):
                    st = {k: int(v) for k, v in core.parse_kv(l).items() if v.lstrip("-").isdigit()}
            if not st:
                raise core.TieBroken("driver:c15:no-stats", "\n".join(lines[-20:]))
            for k, v in st.items():
                stats[k] = max(stats.get(k, 0), v) if k == "max_depth" else stats.get(k, 0) + v
        res.stats = stats
        res.evaluations = stats.get("programs", 0) * 3 + stats.get("hostile", 0)
        res.distinct_nontrivial = stats.get("nontrivial", 0)
        res.traces_validated = stats.get("cases", 0)
        res.exhaustive = False
        res.rule = ("type-directed random programs (statements: var/assignment operators/if/else/bounded while/for over arrays and dictionaries/function "
                    "values with use()/named recursive functions to depths around and beyond the frame limit/try/except/throw/break/continue/globals), "
                    "pure expression trees (precedence workhorse: every binary/unary/postfix operator, in/!in, ternary, lambdas, ~45 prototype methods "
                    "and System functions), the same generators with 12% type chaos (ill-typed stream), deep nesting (parentheses, brackets, unary, "
                    "left/right operator chains, member chains, dictionary literals, immediately-invoked lambdas, recursion; depths 5..310 around every "
                    "boundary, 700 quick / 5000 thorough), three themed families checked by spec clauses against the reference's answer (loops of up to 400 "
                    "CAUGHT exceptions of 8 kinds followed by nested expressions: depth errors only beyond real nesting 300; use() closures called "
                    "2-4 times that modify captured variables/locals or recurse through an argument: per-call copies; array - array over mixed element "
                    "types: never raises; if/else-if chains of 2-5 branches with overlapping conditions with and without else: first true condition in source "
                    "order; errors raised inside dictionary literals (also nested, also in functions) and caught in the same frame, followed by plain "
                    "assignments/reads and uses of this: this restored; ten String methods on empty-string receivers (literal, variable, computed): "
                    "the method sees \"\" as this; return/break/continue executed in try bodies, except handlers, conditionals and nested handlers inside "
                    "functions, for/while loops over arrays and dictionaries, nested loops and loops inside functions called from loops: the enclosing "
                    "construct is left; constant array/dictionary literals (also empty, nested) in function bodies called 2-4 times, loop bodies, lambdas "
                    "and twice at top level, mutated in place by add/remove/set/clear/index/field assignment: a new container per evaluation; map/filter/any/all "
                    "with use() callbacks that add to / remove from / clear / overwrite the array being iterated, arrays of 0-6 and of 3000/6000 elements: the "
                    "elements visited are those present when the method was called (1f98393); number and "
                    "duration literals of every suffix with random digits and fractions, compared and combined; family `prec`: EVERY ordered pair of the 20 binary "
                    "operators in both tree shapes, every prefix operator against every binary operator in three shapes, every operator against the three "
                    "postfix forms — 1112 shapes, 2 (quick) / 8 (thorough) draws of operand values each), each printed minimally per the generated precedence table and fully parenthesised, evaluated "
                    "3x in forked children, plus a third printing with the minimal parentheses of the DOCUMENTED table (evaluated when its text differs); plus hostile texts (token/byte mutations of generated programs, arbitrary byte strings). evaluations = "
                    "3 x programs + hostile texts; non-trivial = programs with more than 6 AST tokens whose model outcome was compared (value or script error)")
        raw = open(save, errors="replace").read().splitlines()
        res.samples = [l[:300] for l in raw[:: max(1, len(raw) // 8)]][:8]
        if hasattr(self, "table"):
            res.extra = {"generated_precedence_levels": len(self.table["block"]), "generated_binary_rules": len(self.table["binary"])}

        seen = set()
        n_corr = 0
        for save, lines in outs:
            raw = open(save, errors="replace").read().splitlines()
            for l in lines:
                if l.startswith("BADLINE"):
                    res.corr_failures.append(runner.Finding("corr", "protocol", [l]))
                    continue
                if not (l.startswith("SPECFAIL") or l.startswith("MISMATCH")):
                    continue
                kv = core.parse_kv(l)
                ln = int(kv.get("line", "0"))
                if not (0 < ln <= len(raw)):
                    continue
                case = raw[ln - 1]
                kind = l.split()[0]
                clause = kv.get("clause", kv.get("what", "?"))
                if kind == "MISMATCH" and n_corr >= 3:
                    continue
                m_sig = re.search(r"crash:sig=\d+|timeout", case.split(" | ")[-1]) if kind == "SPECFAIL" else None
                sig = (clause, m_sig.group(0) if m_sig else "")
                if kind == "SPECFAIL" and len([k for k in seen if k[0] == sig]) >= (5 if sig[1] else 2):
                    continue

                def still(cand, kind=kind, clause=clause):
                    try:
                        dout, _ = self._replay_lines(harness, driver, [cand])
                    except core.TieBroken:
                        return False
                    want = l.split(" model=")[1].split(" impl=")[0][:12] if kind == "MISMATCH" and " model=" in l else ""
                    # (a shrunk variant that no longer parses fails the parenthesisation clauses for a reason of its own: the two texts
                    #  report the syntax error at different columns)
                    return any(x.startswith(kind) and (clause in x) and (want in x) and "impl=syntax" not in x
                               and (clause == "generated_program_parses" or "min=syntax" not in x) for x in dout)

                shown = case
                # (the join clause only looks at the family tag and the outcome: every shrunk variant that raises would satisfy it)
                if case.startswith("P ") and clause not in ("array_join_total_on_scalars", "reference_example_as_documented") and not case.startswith("P mapmut-") and still(case):   # (the regression lines of F-C15f are minimal already)
                    shown = self._shrink_p(harness, driver, case, still)
                    _, sl = self._replay_lines(harness, driver, [shown])
                    shown = sl[0] if sl else shown
                text = self._text(harness, shown, "doc" if clause == "precedence_as_documented" else "min")
                key = (sig if kind == "SPECFAIL" else clause, text)
                if key in seen:
                    continue
                seen.add(key)
                data = {"driver": l, "text": text, "kind": case[:1], "obs": shown.split(" | ")[-1] if " | " in shown else ""}
                if kind == "SPECFAIL":
                    res.spec_failures.append(runner.Finding("spec", f"spec:C15:{clause}:{text[:80]}", [shown], data, data))
                else:
                    n_corr += 1
                    res.corr_failures.append(runner.Finding("corr", clause, [shown], data, data))
        return res

    # ------------------------------------------------------------------ known findings (narrow classifiers over the minimised witness)
    def matches_known(self, entry, finding):
        d = finding.classifier_data or {}
        if finding.kind == "spec" and entry.get("classifier") == "c15_join_non_string_scalars":
            # exactly: the join clause, on a program that joins an array literal containing a Boolean
            return "clause=array_join_total_on_scalars" in d.get("driver", "") and \
                re.search(r"\[[^\]]*\b(true|false)\b[^\]]*\]\.join\(", d.get("text", "")) is not None
        if finding.kind != "spec" or "clause=no_crash" not in d.get("driver", ""):
            return False
        text, obs, cls = d.get("text", ""), d.get("obs", ""), entry.get("classifier")
        if cls == "c15_sort_comparator_not_strict_weak":
            return "sig=11" in obs and re.search(r"\.sort\(\s*\(?\(", text) is not None
        if cls == "c15_cyclic_container_recursion":
            # a container that was stored into itself and is then compared / printed
            return ("sig=11" in obs or "timeout" in obs) and re.search(r"\.add\(|\[[^\]]*\]\s*=|\.\w+\s*=", text) is not None \
                and re.search(r"==|!=|<|>|string\(|to_string|\+|\bthrow\b|\bin\b|contains\(|\[[^\]]*\]", text) is not None
        return False

    def replay(self, path, harness, driver):
        data = json.load(open(path))
        lines = [l for l in data.get("case", []) if l[:2] in ("P ", "X ")]
        out, shown = self._replay_lines(harness, driver, lines, "replay")
        for l in shown:
            print(l[:2000])
            print(self._text(harness, l))
        print("\n".join(out))
        return not any(l.startswith(("SPECFAIL", "MISMATCH", "BADLINE")) for l in out)


CHECK = C15()

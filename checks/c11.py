"""C11 — cluster routing: complete, duplicate-free, loop-free, never to ineligible zones.  DESIGN.md §2 C11."""
import glob
import json
import os
import subprocess
import sys

from vlib import core, runner
from .base import Check


# Behaviour-preserving rewrites of the anchored code on which the check must stay silent.  Each was built as a mutated object
# file outside /repo, linked into a scratch harness and run through the whole correspondence flow (corpus, generated cases,
# network steps, simulation): no MISMATCH, no SPECFAIL.  Patches (documentation only): corpus/C11/negative_controls/*.diff.
NEGATIVE_CONTROLS = [
    "nc1_reorder_rename_extract: RelayMessageOne/SyncRelayMessage with renamed locals, reordered independent statements "
    "(master and local endpoint looked up first, originZone set before ts), isMaster hoisted, log-position update extracted into a helper",
    "nc2_log_text: different log / exception texts in SyncRelayMessage, SyncSendMessage, the master log line, "
    "JsonRpcConnection::SendMessage and MessageHandler",
    "nc3_iteration_and_representation: endpoints of a target zone visited in REVERSE order, target zones copied into a vector, "
    "GetMaster via std::min_element, an extra bookkeeping counter  [alarmed at first: the reported iteration order was used as the "
    "only allowed order; the driver now accepts any arrangement of each zone's endpoint set - DESIGN.md 0.3 'allowed sets']",
    "nc4_guard_spellings: early return as positive nested test, `relayed && foreign` as nested ifs, De Morgan on the FromZone guard, "
    "master guard as if/else, log_done as an expression, `log && need_log` as early return, FromZone as a conditional expression",
    "nc5_robbed_members_and_statics: outgoing queue filled through a moved temporary with added braces/comments, replay-log counter "
    "pre-incremented before the write, relay job as a named lambda, static helper CleanupCertificateRequest renamed",
    "nc6_zone_walk: Zone::IsChildOf as a recursion, CanAccessObject as one expression, GetEndpoints collecting into a vector first",
    "nc7_newest_connection_and_parent_walk: SyncSendMessage computing the newest timestamp with std::max over a copied client set and "
    "sending afterwards, Zone::OnAllConfigLoaded's parent walk as a for loop (each parent still resolved by name)",
    "nc8_replay_guard_handler_alias: ReplayLog's two `continue` guards on the security object as one named bool, SetRemovalInfo's downtime "
    "branch passing the origin through a local alias, CheckResultHandler building the message inline and passing the log flag as a "
    "named constant (the E / P lines and the handler-table translator stay silent)",
]


class C11(Check):
    prop = "C11"
    required_theorems = [
        # one relaying node, every topology / connectivity / origin / object zone / iteration order
        "only_entitled", "no_echo", "single_entry", "only_master_crosses", "logged_not_dropped", "logged_not_dropped_global",
        "reachable_only", "no_duplicate_send", "origin_zone_copied", "relay_meets_spec", "same_master",
        "logged_not_dropped_three_endpoints_counterexample",
        # the cluster
        "second_hop_no_echo", "net_only_entitled", "net_no_discard",
        "no_duplicate", "finite", "finite_and_no_duplicate", "hdepth_of_rank", "complete_when_connected",
        "finite_and_no_duplicate_partial", "complete_when_connected_partial",
        "no_duplicate_three_endpoints_counterexample",
        # the real cluster event handlers and the replay path
        "handlers_pass_origin", "handled_no_echo", "handled_meets_spec_partial", "handlers_relay_except_next_notification",
        "handler_dropping_origin_counterexample", "handled_next_notification_counterexample",
        "replay_only_entitled_partial", "replay_deleted_not_sent", "replay_meets_spec_partial",
        "replay_global_counterexample", "replay_no_object_counterexample",
        # log positions: live routing, then the replay after a reconnect
        "skipped_or_sent", "served_not_replayed", "missed_is_replayed", "log_run_meets_spec",
        "report_without_guard_counterexample",
        # the two members of a zone together
        "confirmed_not_replayed", "pair_connected_no_replay_partial", "pair_double_replay_counterexample", "pair_live_one_sender",
        # SyncSendMessage's newest-connection rule
        "sync_send_one_copy", "sync_send_syncing_nothing", "sync_send_equal_stamps_counterexample",
    ]
    technique = ("Lean 4 proof (decision logic stated outright for the per-node relay function over ALL topologies; invariant by "
                 "induction over deliveries for the cluster-wide statements incl. the general no-duplicate / finiteness / completeness theorems; "
                 "a kernel-evaluated exhaustive enumeration, labelled as such, is kept as a cross-check) over a hand-written transcription of ApiListener::GetMaster / RelayMessageOne / "
                 "SyncRelayMessage and of the origin construction in JsonRpcConnection::MessageHandler; correspondence by driving the real "
                 "ApiListener::RelayMessage on in-process cluster nodes (one process per topology, node identity switched) and diffing the "
                 "outgoing queues, the replay-log decision, the originZone/ts fields and the advanced log positions")
    level_text = ("Machine-checked theorems (Lean 4 kernel) about the transcription of one node's relay step, for EVERY zone graph, endpoint "
                  "placement, connectivity, origin, object zone, master and iteration order of the endpoint sets (no bound on sizes): every send "
                  "goes to a reachable endpoint of an entitled zone (the object's zone or an ancestor; global object: own zone or a direct "
                  "child), never to the origin's endpoint or zone, to at most one endpoint of a foreign zone, never twice to the same endpoint, "
                  "a non-master sends to nobody but its zone master, a node that reaches no member of an entitled directly related zone (or its "
                  "own zone peer) persists the message, the origin zone travels in the message, the master named by GetMaster depends on names and "
                  "connectedness only (two nodes with the same view name the same master: `same_master`), what is due at a hop (zone peer; one "
                  "endpoint of every entitled directly related zone for the master) is sent, one copy per endpoint - together: the executable specification holds "
                  "on the model's own output. Cluster-wide, for every topology and every delivery order (induction over deliveries): every "
                  "message ever put on the wire goes to an entitled zone and carries an origin that makes the recipient accept it (nothing is "
                  "discarded when the originator is entitled), and the second hop never returns to the zone the event came from; and - GENERAL, "
                  "for every zone forest with detached global zones, at most two endpoints per zone, symmetric static connectivity, every "
                  "originator, object zone, iteration order and delivery order, by the 'compass' history invariant - no endpoint processes "
                  "the event twice, all recipients of messages ever sent are pairwise different (so fewer messages than endpoints are ever "
                  "sent: the event cannot circulate), i.e. the cluster-wide executable specification holds in every reachable state "
                  "(`no_duplicate`, `finite`, `finite_and_no_duplicate`), with a kernel-checked counterexample showing that 'at most two "
                  "endpoints per zone' is necessary; and `complete_when_connected`, GENERAL as well: when the zone masters reach their peers and "
                  "one endpoint of each directly related zone and every entitled zone has an endpoint, in every quiescent state every endpoint "
                  "of every entitled zone has processed the event exactly once (flush invariant + induction along the path from the "
                  "originating zone). The enumerated `..._partial` theorems (exhaustive kernel evaluation over a listed finite family) are "
                  "kept as a cross-check of the executable forms of both statements. "
                  "THE REAL HANDLERS: a table of the 18 cluster events of lib/icinga/clusterevents.cpp that a node re-relays after processing "
                  "them (does the received origin reach RelayMessage, which security object is named, is the relaying signal handler reached) "
                  "with `handlers_pass_origin` (every row hands the origin on; the table is re-extracted from the source by gen/c11_handlers.py "
                  "and compared on every run), `handled_no_echo` (for every topology and wire message: never back to the sender, its zone, or the "
                  "zone the originZone field names), `handled_meets_spec_partial` (the whole executable specification holds on the re-relay of every "
                  "row that reaches its signal handler) and kernel-checked counterexamples: a row that drops the origin echoes, and the one row of "
                  "the real code that never relays (`event::SetNextNotification`, F-C11c). THE REPLAY PATH: the visibility test of "
                  "ApiListener::ReplayLog with `replay_only_entitled_partial` / `replay_meets_spec_partial` (an event about an object of an "
                  "ordinary zone, present or deleted meanwhile, is replayed only to endpoints of the object's zone and the zones above it, for "
                  "every zone graph) and counterexamples for objects of global zones (replayed upwards, F-C11a) and records without security "
                  "object (replayed downwards, F-C11b). "
                  "LOG POSITIONS ACROSS A RECONNECT (`logRun`: SetLogPositionHandler, the log-position update of RelayMessageOne for the "
                  "endpoints it deliberately skips, PersistMessage's decision, ReplayLog's timestamp and visibility tests): `skipped_or_sent` "
                  "(every connected endpoint of an entitled directly related zone is handed the event or has its position advanced to the "
                  "event's ts), `served_not_replayed` (such an endpoint is never handed the event by a later replay - for ALL sequences of "
                  "positions it reports before and after), `missed_is_replayed` (an endpoint whose whole zone was unreachable and that has not "
                  "confirmed the event gets exactly one copy when it connects), `confirmed_not_replayed`, and the whole-scenario theorem "
                  "`log_run_meets_spec` (the executable `specLog` holds on the model for every topology, origin, object zone, iteration order, "
                  "target and reported positions); `report_without_guard_counterexample` shows the monotonicity test of SetLogPositionHandler is "
                  "necessary. THE TWO MEMBERS OF A ZONE TOGETHER (`pairRun`: originator, one delivery to its peer, both replay to an endpoint "
                  "that reconnects): `pair_connected_no_replay_partial` (reachable from both: neither replays) and the kernel-checked "
                  "`pair_double_replay_counterexample` for the unchanged code's double delivery (F-C11d), `pair_live_one_sender` (two members with the same "
                  "view of their zone never both hand an event to an endpoint of a foreign zone). SyncSendMessage's newest-connection "
                  "rule as a function of the connections' timestamps: `sync_send_one_copy` (pairwise different timestamps: exactly one copy, on "
                  "the newest), `sync_send_syncing_nothing`, `sync_send_equal_stamps_counterexample`. "
                  "The transcription is tied to the code by differential execution of the real ApiListener::RelayMessage, of the real "
                  "JsonRpcConnection::MessageHandler + every re-relaying handler of clusterevents.cpp on real Host/Service/Notification/Comment/"
                  "Downtime objects, and of the real ApiListener::ReplayLog; the log-position scenarios (L lines) and the two-node scenarios (Q lines) run the real "
                  "SetLogPositionHandler through JsonRpcConnection::MessageHandler, the real relay, a real reconnect (RemoveClient / AddClient) and "
                  "the real ReplayLog, and `specLog` / `specPair` are evaluated on what the implementation did.")
    level_note = ("Trusted: Lean kernel (+ propext, Classical.choice, Quot.sound), the sampled/enumerated correspondence, harness/driver. "
                  "Not modelled: connectivity changing while an event is in flight other than ONE endpoint reconnecting after the event was routed (L / Q lines, `logRun`, `pairRun`), TCP/TLS; `syncing` is modelled per node (nothing is "
                  "queued for a syncing endpoint; GetMaster and RelayMessageOne ignore the flag) but not in the network model (Q-C12b), the "
                  "`ts`-based discard of old messages in MessageHandler (C12). The cluster-wide theorems are about the network MODEL (composition "
                  "of the per-node function that the correspondence ties to the code); the composition itself is tied to the code by the N lines (whole "
                  "propagations on the real code, `specNet` / `specComplete` evaluated on the implementation's own history). Known findings of the unchanged tree, each with a narrow "
                  "classifier, a kernel-checked counterexample and the full statement kept as `..._partial`: F-C11a (ReplayLog replays events "
                  "about global-zone objects to any connecting endpoint), F-C11b (records without security object are replayed to child zones), "
                  "F-C11c (event::SetNextNotification is processed and never relayed: dead signal), F-C11d (a zone member that cannot reach a child / "
                  "parent zone logs the event although its peer serves that zone and replays it when the endpoint connects: the endpoint is handed the "
                  "event twice by the two members). Robustness: 8 behaviour-preserving rewrites of the anchored "
                  "code (NEGATIVE_CONTROLS in checks/c11.py, patches in corpus/C11/negative_controls) pass silently; hypotheses: global zones have no parent, forest depth "
                  "within the IsChildOf walk (<= 33), every zone with a parent is a registered Zone object.")
    trusted_base = [
        "modelled, not verified: only ApiListener::GetMaster, RelayMessageOne, SyncRelayMessage, the FromZone computation of "
        "JsonRpcConnection::MessageHandler and the handlers' CanAccessObject guard; std::sort of the names is modelled by the minimum "
        "of the index order (endpoint k is named e<kk>, so the order of the indices is the order of the names)",
        "the iteration order of the endpoint sets is free (std::set<Endpoint::Ptr> ordered by address; DESIGN.md 0.3 'allowed sets'): the "
        "harness reports the order Zone::GetEndpoints() yields in the node process, the model is first run with that order and, where "
        "the observation differs, with every arrangement of every zone's endpoint set - a case disagrees only if NO arrangement "
        "explains it (counted as order_free otherwise); the theorems hold for every order",
        "the network model composes the per-node function; ONE network step (origin construction by the real MessageHandler, "
        "acceptance by the real Zone::CanAccessObject, re-relay with that origin) is tied to the code by the D-line correspondence, "
        "with a harness-registered ApiFunction standing for the cluster event handlers' glue, AND by the E-line correspondence through "
        "each of the 18 real re-relaying handlers (whether the node processed the event - object state changed or a notification signal "
        "fired - is read from the implementation: the handlers' guards are C13's subject); WHOLE PROPAGATIONS are run on the real code in "
        "one process (N lines: the identity is switched to each recipient in turn, its row of the connectivity matrix installed, every copy "
        "found on a queue handed to the real MessageHandler of the sender's connection), compared with `start` / `deliver` along the same "
        "schedule, and `specNet` / `specComplete` are evaluated on the implementation's own history; the nodes share the process' zone and "
        "endpoint registries (every node knows the whole forest) and real sockets / concurrency are not involved",
        "events a node generates ITSELF while processing a received one (other method names: e.g. event::UpdateExecutions from "
        "event::ExecutedCommand, event::SendNotifications from a state change) are new local events and only counted (x=); "
        "event::ExecuteCommand / ExecutedCommand (command forwarding and its replies, C13) are not driven",
        "the replay path is covered for the entitlement sentence (P lines: one persisted local event per case, object present / deleted / "
        "never named) and for 'not twice / not dropped' across ONE reconnect of ONE endpoint after ONE event (L, Q lines: positions reported "
        "through the real SetLogPositionHandler; the reconnecting endpoint itself - its remote_log_position filter - is not run: a copy "
        "put on its new connection counts as processed, which is what the per-sender filter of MessageHandler does with it); order, "
        "completeness over several events, log rotation and the state file are C12",
        "in the two-node scenarios (Q lines) the second node's part is run after the first one's in the same process (identity switched, "
        "log emptied, positions reset): the two nodes interact through the one message only; an endpoint that received the event live "
        "confirms it with the event's ts before it reconnects",
        "SyncSendMessage's choice among several connections is modelled on their creation timestamps (`syncSend`); the harness attaches at "
        "most two connections per endpoint, created at different virtual times",
        "gen/c11_handlers.py is a syntactic reading of clusterevents.cpp (calls that receive the MessageOrigin parameter, RelayMessage "
        "arguments); it complements the dynamic E lines and is not a proof about the C++",
    ]
    assumptions = [
        "a node is connected to an endpoint iff a JsonRpcConnection object is attached to it (Endpoint::AddClient); connections are "
        "constructed but never started; `syncing` is set with Endpoint::SetSyncing as part of the scenario",
        "zones, endpoints and the ApiListener are created directly (new + Register + OnAllConfigLoaded + Activate), the security object is "
        "the Zone itself, a User with that zone attribute, or absent",
        "the relay work queue is joined and every connection's strand is passed by a barrier before the queues are read; the virtual "
        "clock advances by 1 s per case",
        "the local endpoint is a member of its own zone (otherwise GetMaster dereferences an empty vector)",
    ]

    # ------------------------------------------------------------------------------------------
    def _workdir(self):
        return os.path.join(core.WORK, "c11", "nodes")

    def _harness(self, args, save):
        os.makedirs(os.path.dirname(save), exist_ok=True)
        with open(save, "w") as f:
            p = subprocess.run(args + ["--work", self._workdir()], stdout=f, stderr=subprocess.PIPE, timeout=3600)
        if p.returncode != 0:
            raise core.TieBroken("harness:c11:run", f"rc={p.returncode}\n{p.stderr.decode(errors='replace')[-3000:]}")

    def _driver(self, driver, save, args=()):
        with open(save) as f:
            p = subprocess.run([driver] + list(args), stdin=f, stdout=subprocess.PIPE, stderr=subprocess.PIPE, text=True,
                               errors="replace", timeout=3600)
        if p.returncode != 0:
            raise core.TieBroken("driver:c11:run", (p.stdout + p.stderr)[-3000:])
        return p.stdout.splitlines()

    def _replay_lines(self, harness, driver, lines, tag):
        f = self.work(tag + ".ops")
        with open(f, "w") as fh:
            fh.write("\n".join(runner.strip_obs(l) for l in lines) + "\n")
        save = self.work(tag + ".out")
        self._harness([harness, "ops", f], save)
        return self._driver(driver, save), open(save).read().splitlines()

    def _fails(self, harness, driver, lines, prefix, sub=""):
        try:
            out, _ = self._replay_lines(harness, driver, lines, "shrink")
        except core.TieBroken:
            return False
        return any(l.startswith(prefix) and sub in l for l in out)

    def _shrink(self, harness, driver, all_lines, line_no, prefix, sub):
        """The witness of a per-node failure is ONE R line under its T line; confirm it in a fresh process."""
        k = line_no - 1
        r = all_lines[k]
        while k >= 0 and not all_lines[k].startswith("T "):
            k -= 1
        case = [all_lines[k], r]
        if self._fails(harness, driver, case, prefix, sub):
            return open(self.work("shrink.out")).read().splitlines(), True
        return case, False

    @staticmethod
    def _stats(lines, key="STATS"):
        for l in lines:
            if l.startswith(key):
                return {k: int(v) for k, v in core.parse_kv(l).items() if v.lstrip("-").isdigit()}
        return None

    def _collect(self, res, lines, all_lines, harness, driver, origin):
        bad = [l for l in lines if l.startswith("BADLINE")]
        if bad:
            res.corr_failures.append(runner.Finding("corr", "protocol", bad[:5], {"origin": origin}))
        seen = {}

        def known_looking(l):
            # failures of `pair_one_copy` that have the shape of F-C11d are looked at AFTER all others, so that the cap below never
            # hides a different violation of the same clause behind known ones
            try:
                src = all_lines[int(core.parse_kv(l)["line"]) - 1]
            except (KeyError, ValueError, IndexError):
                return False
            return src.startswith("Q ") and self._pair_known_shape(src)
        specfails = [l for l in lines if l.startswith("SPECFAIL")]
        for l in [x for x in specfails if not known_looking(x)] + [x for x in specfails if known_looking(x)]:
            if True:
                kv = core.parse_kv(l)
                cl = kv.get("clause", "?")
                seen[cl] = seen.get(cl, 0) + 1
                if seen[cl] > 2 or (seen[cl] > 1 and len(seen) > 6) or len(seen) > 16:
                    continue
                shown, isolated = self._shrink(harness, driver, all_lines, int(kv["line"]), "SPECFAIL", "clause=" + cl)
                res.spec_failures.append(runner.Finding("spec", f"spec:C11:{cl}", shown,
                                                        {"driver": l, "origin": origin, "reproduced_in_isolation": isolated}))
        seen_ops = {}
        for l in lines:
            if l.startswith("MISMATCH"):
                kv = core.parse_kv(l)
                op = kv.get("op", "?")
                seen_ops[op] = seen_ops.get(op, 0) + 1
                if seen_ops[op] > 1 or len(seen_ops) > 3:
                    continue
                if op in ("order", "all_parents", "handler-table"):
                    shown, isolated = [all_lines[int(kv["line"]) - 1]], False
                else:
                    shown, isolated = self._shrink(harness, driver, all_lines, int(kv["line"]), "MISMATCH", "op=" + op)
                res.corr_failures.append(runner.Finding("corr", op, shown,
                                                        {"driver": l, "origin": origin, "reproduced_in_isolation": isolated}))
        return seen, seen_ops

    def correspondence(self, tier, seed, harness, driver):
        res = runner.Result()
        total = {}
        corpus = sorted(glob.glob(os.path.join(core.ROOT, "corpus", self.prop, "*.ops")))
        for i, cf in enumerate(corpus):
            save = self.work(f"corpus{i}.out")
            self._harness([harness, "ops", cf], save)
            lines = self._driver(driver, save)
            st = self._stats(lines)
            if st is None:
                raise core.TieBroken("driver:c11:no-stats:" + os.path.basename(cf), "\n".join(lines[-20:]))
            for k, v in st.items():
                total["corpus_" + k] = total.get("corpus_" + k, 0) + v
            self._collect(res, lines, open(save).read().splitlines(), harness, driver, os.path.basename(cf))
        save = self.work("gen.out")
        self._harness([harness, "gen", "--seed", str(seed), "--tier", tier], save)
        # the handler table as the translator reads it from the source under test (compared with `handlers` by the driver)
        tr = subprocess.run([sys.executable, os.path.join(core.ROOT, "gen", "c11_handlers.py"), core.REPO],
                            stdout=subprocess.PIPE, stderr=subprocess.PIPE, text=True, timeout=120)
        if tr.returncode != 0 or not tr.stdout.startswith("H "):
            raise core.TieBroken("translator:c11:handlers", (tr.stdout + tr.stderr)[-3000:])
        with open(save, "a") as f:
            f.write(tr.stdout)
        lines = self._driver(driver, save)
        stats = self._stats(lines)
        if stats is None:
            raise core.TieBroken("driver:c11:no-stats", "\n".join(lines[-20:]))
        all_lines = open(save).read().splitlines()
        self._collect(res, lines, all_lines, harness, driver, "gen")

        # the network model on every generated topology (a test of the composition statements, not a proof)
        topo_file = self.work("topologies.txt")
        seen_t = set()
        with open(topo_file, "w") as f:
            for l in all_lines:
                if l.startswith("T "):
                    w = l.split()
                    key = " ".join(w[2:])
                    if key not in seen_t:
                        seen_t.add(key)
                        f.write(l + "\n")
        sim = self._driver(driver, topo_file, ["sim", str(seed), "60" if tier == "thorough" else "12"])
        sim_stats = self._stats(sim, "SIMSTATS")
        if sim_stats is None:
            raise core.TieBroken("driver:c11:no-simstats", "\n".join(sim[-20:]))
        sim_fail = [l for l in sim if l.startswith("SIMFAIL")]
        if sim_fail:
            kv = core.parse_kv(sim_fail[0])
            tl = open(topo_file).read().splitlines()[int(kv["line"]) - 1]
            res.corr_failures.append(runner.Finding("corr", "network-model:" + kv.get("clause", "?"), [tl] + sim_fail[:5],
                                                    {"note": "the network MODEL violates the cluster-wide specification on a topology "
                                                             "inside the property's quantifier; the composition theorems' statements "
                                                             "do not hold for the transcription"}))
        stats.update(total)
        stats.update({"sim_" + k: v for k, v in sim_stats.items()})
        res.stats = stats
        res.evaluations = stats.get("steps", 0) + total.get("corpus_steps", 0)
        res.distinct_nontrivial = stats.get("nontrivial", 0)
        res.traces_validated = stats.get("steps", 0) + total.get("corpus_steps", 0)
        res.exhaustive = False
        res.extra = {"corpus_files": [os.path.basename(c) for c in corpus], "topologies": len(seen_t),
                     "network_model_runs": sim_stats.get("runs", 0)}
        res.rule = ("corpus/C11/*.ops, then: one representative of every isomorphism class of zone forests with 1..5 zones and depth <= 3, "
                    "plus one global zone, 1-2 endpoints per zone (all count vectors up to 3 zones (thorough: 4), all-two plus seeded ones "
                    "above), endpoint names dealt to zones in ascending / descending / seeded order, Endpoint objects allocated in "
                    "ascending / descending / seeded order (std::set iteration order); per topology one process, per node identity (all "
                    "of them; quick: 5 seeded ones for 5 zones) the full grid {connectivity vectors of the directly related endpoints} "
                    "x {null origin, origin without client, anonymous client, every other endpoint as client with the FromZone values "
                    "MessageHandler can produce} x {every zone incl. the global one, no object} when it has at most 2500 (thorough 20000) "
                    "points, else that many seeded samples; unrelated endpoints' connectivity, one/two connections per endpoint, object kind "
                    "(Zone itself / User with zone attribute / none) and the log flag seeded; 1/8 extra cases with origins MessageHandler "
                    "cannot produce; connectivity states per endpoint: not connected / one connection / two connections (older and newer, their "
                    "order in memory alternating) / either of the latter with the endpoint `syncing` (zone peers: all three of not connected, "
                    "connected, connected+syncing in the grid); zones finalised (Zone::OnAllConfigLoaded) parents-first, children-first or in a "
                    "seeded permutation, and for every tree of depth 3 with 3-4 (thorough 5) zones in EVERY permutation, Zone::GetAllParents() of "
                    "every zone compared with the model's chain; per topology both members of every two-member zone asked for their master "
                    "in all 9 combinations of the peer states (M lines, `specMasterPair`); per node identity additionally NETWORK STEPS (D lines): a raw JSON-RPC message from every other endpoint x "
                    "originZone field (absent / every zone for zone peers, absent / one seeded zone for foreign senders) x object zone is handed "
                    "to the real JsonRpcConnection::MessageHandler, whose registered handler discards by Zone::CanAccessObject or re-relays "
                    "with the computed origin - compared with the model's `deliver` (originOf, accept, relay), full grid when at most cap/2 "
                    "points, else seeded; plus seeded topologies outside the property's quantifier (three endpoints per zone, several global "
                    "zones, a global zone with endpoints). evaluations = RelayMessage calls; a call is non-trivial when something was sent, "
                    "skipped or persisted; distinct by (topology, node, call) text (counted by the Lean driver). Per node identity additionally "
                    "REAL-HANDLER STEPS (E lines): every other endpoint as sender x originZone field (as for D lines) x every object zone incl. the "
                    "global one and 'no zone attribute' x 2 (thorough 6) seeded picks among the 38 variants of the 18 re-relaying cluster events "
                    "(host / service, comment / downtime) with seeded connectivity: the raw message is handed to the real MessageHandler, the "
                    "real handler of clusterevents.cpp processes it on real objects and re-relays; every connection's queue (the sender's "
                    "included) is read and `specCase` is evaluated with the origin the wire message defines; and REPLAY STEPS (P lines): every "
                    "object zone x {Zone object, User of that zone present, User deleted before the replay, no security object} x every other "
                    "endpoint as the one that connects: local event relayed with nobody connected, real ApiListener::ReplayLog for the "
                    "connecting endpoint, `specReplay` on what it got; LOG-POSITION STEPS (L lines): every directly related endpoint (and a quarter of the "
                    "others) as the one that reconnects x every object zone incl. none x 4 (thorough 12) seeded scenarios {it was connected / not} x "
                    "seeded connectivity of the rest (each related endpoint missing with probability 0.4) x origin (none, or a connected sender with "
                    "the FromZone MessageHandler computes) x sequences of positions reported before {none, older} and after {none, older, the "
                    "event's ts, newer, newer-then-older, ...} the event through the real log::SetLogPosition handler, then RemoveClient / AddClient "
                    "and the real ReplayLog: `specLog` on what the endpoint was handed; TWO-NODE STEPS (Q lines): both members of every two-member "
                    "zone x every endpoint of a parent / child zone x every object zone x {connected to both, one, the other, neither} with seeded "
                    "rest: local event on the first, the real MessageHandler on the second, confirmation, reconnect and ReplayLog on both: "
                    "`specPair` on the copies handed over by the two together; REAL PROPAGATIONS (N lines): per topology every originator x every object "
                    "zone x {everything connected, two seeded symmetric connectivity matrices} with the delivery order rotating over oldest-first / "
                    "newest-first / seeded: the event travels through the real code node by node until nothing is in flight, the history is compared "
                    "with the network model along the same schedule and `specNet` (nobody twice, only entitled, nothing discarded, fewer messages "
                    "than endpoints) and - when the masters' connectivity hypothesis holds - `specComplete` are evaluated on it. The handler table extracted from clusterevents.cpp (H lines) is compared "
                    "with the model's. Then the network model is "
                    "run on every generated topology (all originators x object zones x 12 (thorough 60) seeded symmetric connectivity patterns x 4 delivery orders, every node iterating the endpoint sets in its own order; completeness is checked whenever the pattern meets the property's connectivity hypothesis).")
        es = [l for l in all_lines if l.startswith("E ") and " a=1 " in l and " s=- " not in l]
        ps = [l for l in all_lines if l.startswith("P ") and " r=1 " in l]
        ls_ = [l for l in all_lines if l.startswith("L ") and " p=1 " in l]
        qs = [l for l in all_lines if l.startswith("Q ") and " ab=1 " in l]
        ns = [l for l in all_lines if l.startswith("N ") and l.count(",") > 6]
        ds = [l for l in all_lines if l.startswith("D ")]
        rs = [l for l in all_lines if l.startswith("R ")]
        ts = [l for l in all_lines if l.startswith("T ")]
        res.samples = [ts[len(ts) // 2]] + rs[len(rs) // 2: len(rs) // 2 + 3] + ["..."] + ds[len(ds) // 2: len(ds) // 2 + 2] + ["..."] + es[len(es) // 2: len(es) // 2 + 2] + ["..."] + ps[len(ps) // 2: len(ps) // 2 + 2] + ["..."] + ls_[len(ls_) // 2: len(ls_) // 2 + 2] + ["..."] + qs[len(qs) // 2: len(qs) // 2 + 2] + ["..."] + ns[len(ns) // 2: len(ns) // 2 + 2] + ["..."] + rs[-2:]
        return res

    def replay(self, path, harness, driver):
        data = json.load(open(path))
        lines = [l for l in data.get("case", []) if l[:2] in ("T ", "R ", "D ", "M ", "E ", "P ", "L ", "Q ", "N ")]
        out, shown = self._replay_lines(harness, driver, lines, "replay")
        print("\n".join(shown))
        print("\n".join(out))
        return not any(l.startswith(("SPECFAIL", "MISMATCH", "BADLINE")) for l in out)


    # ------------------------------------------------------------------------------------------
    # known findings: narrow classifiers over the isolated witness (T line + ONE case line with its observation)
    @staticmethod
    def _witness(finding, tag):
        ts = [l for l in finding.case_lines if l.startswith("T ")]
        cs = [l for l in finding.case_lines if l.startswith(tag + " ")]
        if len(ts) != 1 or len(cs) != 1:
            return None, None
        return ts[0].split("|")[0].split(), cs[0]

    @staticmethod
    def _pair_known_shape(qline):
        """F-C11d on a Q line with its observation: exactly two copies, at most one of them live, each node replays at most once,
        and every replayed copy comes from a member that did NOT reach the endpoint while the event was routed (a replay to an
        endpoint that was connected - what a lost / rewound log position produces - is not this finding)."""
        try:
            w = qline.split("|")[0].split()            # Q <a> <b> <objzone> <kind> <target> <conn a> <conn b>
            kv = core.parse_kv("Q " + qline.split("|")[1])
            target = int(w[5])
            lst = lambda v: [] if v == "-" else [int(x) for x in v.split(",")]
            la, lb = lst(kv["sa"]).count(target), lst(kv["sb"]).count(target)
            ra, rb = int(kv["ra"]), int(kv["rb"])
            return (la + lb <= 1 and ra <= 1 and rb <= 1 and la + lb + ra + rb == 2 and ra + rb >= 1
                    and (ra == 0 or w[6][target] == "0") and (rb == 0 or w[7][target] == "0") and kv.get("x") == "0")
        except (ValueError, IndexError, KeyError):
            return False

    def matches_known(self, entry, finding):
        if finding.kind != "spec":
            return False
        cl = entry.get("classifier")
        what = finding.what
        try:
            if cl == "c11_replay_global_object_beyond_own_zone_and_children":
                if what != "spec:C11:replay_global_own_zone_and_children":
                    return False
                t, c = self._witness(finding, "P")
                if t is None:
                    return False
                w = c.split("|")[0].split()            # P <objzone> <kind> <del> <target>
                nz = int(t[3])
                parents = t[4:4 + nz]
                return (w[1] != "-" and parents[int(w[1])] == "g" and w[2] in ("u", "z") and w[3] == "0"
                        and " p=1 " in c + " " and " r=1 " in c + " ")
            if cl == "c11_replay_record_without_object_below_own_zone":
                if what != "spec:C11:replay_no_object_own_zone_and_above":
                    return False
                t, c = self._witness(finding, "P")
                if t is None:
                    return False
                w = c.split("|")[0].split()
                return w[1] == "-" and w[2] == "n" and w[3] == "0" and " p=1 " in c + " " and " r=1 " in c + " "
            if cl == "c11_next_notification_processed_not_relayed":
                if what not in ("spec:C11:forwarded_when_reachable@SetNextNotification", "spec:C11:logged_not_dropped@SetNextNotification"):
                    return False
                t, c = self._witness(finding, "E")
                if t is None:
                    return False
                w = c.split("|")[0].split()            # E <conn> <from> <originzone> <objzone> <method> <var>
                return w[5] == "SetNextNotification" and " a=1 " in c and " s=- " in c and " p=0 " in c
            if cl == "c11_pair_member_logs_for_zone_its_peer_serves":
                if what != "spec:C11:pair_one_copy":
                    return False
                t, c = self._witness(finding, "Q")
                if t is None:
                    return False
                w = c.split("|")[0].split()            # Q <a> <b> <objzone> <kind> <target> <conn a> <conn b>
                return self._pair_known_shape(c)
        except (ValueError, IndexError):
            return False
        return False


CHECK = C11()

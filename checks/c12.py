"""C12 — replay log: events for a disconnected peer are kept and replayed in order.  DESIGN.md §2 C12."""
import time

from vlib import core, runner
from .base import StdCheck


def _cpu_now():
    """The shrinking budgets are CPU seconds of this process and of the harness/driver runs it waited for, not wall seconds: on an
    overloaded machine a wall-clock budget ends the minimisation early, and an unminimised witness of a RECORDED shape does not match its
    (deliberately narrow) classifier - a false alarm that has nothing to do with the tree under test."""
    import os
    t = os.times()
    return t[0] + t[1] + t[2] + t[3]


def _ops(lines):
    return [l.split(" | ")[0].split() for l in lines if l.strip()]


def equal_stamp_witness(clause, lines):
    """F-C12a: the minimised witness consists of events relayed under a clock that did not advance and a
    replay that misses exactly the later ones of each group of equal timestamps — nothing else is going on
    (no damage, no clean-up, no acknowledgement, no restart, no rotation)."""
    if clause != "replay_complete":
        return False
    ops = _ops(lines)
    if any(o[0] not in ("C", "relay", "conn", "disc", "replay") for o in ops):
        return False
    logged = []
    out = None
    for l in lines:
        pre, _, post = l.partition(" | ")
        w, o = pre.split(), post.split()
        if w and w[0] == "relay" and o and o[0] != "-":
            logged.append((int(w[1]), w[2]))
        if w and w[0] == "replay" and len(o) >= 2:
            out = set(o[1].split(","))
    if out is None or len(logged) < 2:
        return False
    missing = [(i, ts, ident) for i, (ts, ident) in enumerate(logged) if f"M{ident}@{ts}" not in out]
    if not missing:
        return False
    return all(any(ts2 == ts for (ts2, _) in logged[:i]) for (i, ts, _) in missing)


def _file_names(lines):
    """file names (seconds) the witness shows: created by rotations, listed, or the `current` of a replay (now + 1 s)"""
    names = set()
    for l in lines:
        pre, _, post = l.partition(" | ")
        w, o = pre.split(), post.split()
        if not w:
            continue
        if w[0] in ("rotate", "stop") and o and o[0] != "-":
            names.add(int(o[0]))
        if w[0] == "relay" and len(o) >= 3 and o[2] != "-":
            names.add(int(o[2]))
        if w[0] == "ls" and o and o[0] != "-":
            names.update(int(x.split(":")[0]) for x in o[0].split(","))
        if w[0] == "replay":
            names.add(int(w[1]) // 1000000 + 1)
        if w[0] == "probe":
            names.add(int(w[4]) // 1000000 + 1)
    return names


def replay_setpos_witness(clause, lines, kind="replay_file_name"):
    """F-C12c: every confirmation beyond the received position in the witness was sent INSIDE ReplayLog, directly after a
    replayed message, and carries the name (whole seconds) of a log file being replayed.  A too-large position from the
    timer, or any other value, is not of this shape."""
    if clause != "confirmation_not_beyond_received" or kind != "replay_file_name":
        return False
    names = _file_names(lines)
    peers = {"A": 0, "B": 1, "C": 2, "D": 3, "E": 4, "F": 5}
    found = False
    prev_pos = None
    for l in lines:
        pre, _, post = l.partition(" | ")
        w, o = pre.split(), post.split()
        if not w or not o:
            continue
        pos = [int(x) for x in o[-1].split(",")] if "," in o[-1] else None
        if w[0] == "timer" and len(o) >= 8:
            before = prev_pos or [0] * 12
            for p, out in enumerate(o[1:7]):
                if any(it.startswith("L") and int(it[1:]) > before[2 * p + 1] for it in out.split(",")):
                    return False
        if w[0] in ("replay", "probe") and len(o) >= 3 and pos:
            p = peers[w[2] if w[0] == "replay" else w[5]]
            rpos = pos[2 * p + 1]                  # ReplayLog does not touch the positions
            items = o[1].split(",")
            for i, it in enumerate(items):
                if it.startswith("L") and int(it[1:]) > rpos:
                    v = int(it[1:])
                    if v % 1000000 != 0 or v // 1000000 not in names or i == 0 or items[i - 1][0] not in "MOX":    # O / X: a damaged record that was sent
                        return False
                    found = True
        if pos:
            prev_pos = pos
    return found


def two_node_witness(clause, lines, kind=""):
    """F-C12c seen from both ends: the only acknowledgements node Y handled before its own ReplayLog are the SetLogPosition
    messages node X's ReplayLog had queued (the check records that provenance itself)."""
    return clause == "two_node_loss" and kind == "setpos_from_peer_replay"


def _failing_probe(clause, lines):
    """the witness of a damaged-file failure: clause replay_complete, nothing but events / rotations / connects and ONE probe
    with foreign bytes, which is the failing (last) step.  Returns (damage description items, replayed items, logged events)."""
    if clause != "replay_complete":
        return None
    ops = _ops(lines)
    if not ops or ops[-1][0] != "probe" or sum(1 for o in ops if o[0] == "probe") != 1:
        return None
    # besides events and connects only what merely produces files (rotation, stop/crash + start, the counter preset); never a clean-up,
    # an acknowledgement, permanent damage or an object removal, which could explain a missing event otherwise
    if any(o[0] not in ("C", "relay", "rotate", "conn", "attach", "disc", "probe", "ls", "dump", "replay", "stop", "start", "crash",
                        "setcount") for o in ops):
        return None
    post = lines[-1].partition(" | ")[2].split()
    if len(post) < 5 or ops[-1][3] == "-":
        return None
    logged = []
    for l in lines:
        pre, _, po = l.partition(" | ")
        w, o = pre.split(), po.split()
        if w and w[0] == "relay" and o and o[0] != "-":
            logged.append((int(w[1]), w[2]))
    garb = [] if post[3] == "-" else post[3].split(",")
    out = set() if post[1] == "-" else set(post[1].split(","))
    return garb, out, logged


def damaged_timestamp_ahead_witness(clause, lines):
    """F-C12d: the damaged part of the file holds a well-framed record that still decodes to a dictionary with a NUMERIC timestamp
    (e.g. one digit of the stamp changed), and that stamp is not below any of the logged events the replay then left out."""
    fp = _failing_probe(clause, lines)
    if not fp:
        return False
    garb, out, logged = fp
    stamps = [int("".join(ch for ch in g[1:] if ch.isdigit() or ch == "-")) for g in garb if g.startswith("d")]
    missing = [ts for (ts, ident) in logged if f"M{ident}@{ts}" not in out]
    return bool(stamps) and bool(missing) and all(ts <= max(stamps) for ts in missing)


def damaged_wrong_type_witness(clause, lines):
    """F-C12e: the FIRST damaged record is well framed and decodes to a dictionary, but its "timestamp" is no number or its "secobj"
    no dictionary: the comparison / conversion throws outside ReplayLog's try block, SyncClient swallows the exception."""
    fp = _failing_probe(clause, lines)
    if not fp:
        return False
    garb, out, logged = fp
    if not garb:
        return False
    g = garb[0]
    flags = "".join(ch for ch in g[1:] if ch.isalpha())
    return g[0] == "t" or (g[0] in "de" and "s" in flags)


def connect_window_witness(clause, lines):
    """F-C12f: every event that was queued live in front of the replay went to an endpoint whose connection had been added by
    Endpoint::AddClient (`attach`) while SyncClient had not started yet — never to one for which SyncClient was under way (`conn`)."""
    if clause != "no_live_before_sync":
        return False
    peers = ["A", "B", "C", "D", "E", "F"]
    state = {}            # peer -> "attach" | "conn" | "synced"
    found = False
    for l in lines:
        pre, _, post = l.partition(" | ")
        w, o = pre.split(), post.split()
        if not w:
            continue
        if w[0] in ("attach", "conn") and w[1] not in state:
            state[w[1]] = w[0]
        elif w[0] == "disc":
            state.pop(w[1], None)
        elif w[0] in ("replay", "probe"):
            p = w[2] if w[0] == "replay" else w[5]
            if p in state:
                state[p] = "synced"
        elif w[0] in ("stop", "crash", "start"):
            state.clear()
        elif w[0] == "relay" and len(o) >= 2:
            live = int(o[1])
            for i, p in enumerate(peers):
                if live >> i & 1 and state.get(p) in ("attach", "conn"):
                    if state[p] == "conn":
                        return False
                    found = True
    return found


def append_behind_torn_frame_witness(clause, lines):
    """F-C12g: the clause persisted_after_crash_replayed itself is narrow (it only judges events appended to `current` behind a frame that a
    crash / truncation tore, and is switched off by any other damage); the witness must show exactly that and nothing else: a crash (or a
    truncation of `current` without foreign bytes) that lost bytes, a later event that WAS logged, a final undamaged replay that lacks it -
    no probe, no foreign bytes anywhere, no damage to a rotated file."""
    if clause != "persisted_after_crash_replayed":
        return False
    ops = _ops(lines)
    # permanent damage other than a truncation of `current` switches the clause off (Spec.lean `tornStep`); it must not be in a witness.
    # Probes restore the file, listings and dumps only read: they leave no trace.
    if any(o[0] == "setbytes" and not (len(o) >= 4 and o[1] == "cur" and o[3] == "-") for o in ops):
        return False
    cuts = [i for i, o in enumerate(ops) if (o[0] == "crash" and int(o[1]) >= 0) or o[0] == "setbytes"]
    if not cuts or ops[-1][0] != "replay":
        return False
    out = lines[-1].partition(" | ")[2].split()
    if len(out) < 2:
        return False
    got = set(out[1].split(","))
    logged_after = []
    for l in lines[cuts[0] + 1:-1]:
        pre, _, post = l.partition(" | ")
        w, o = pre.split(), post.split()
        if w and w[0] == "relay" and o and o[0] != "-":
            logged_after.append(f"M{w[2]}@{w[1]}")
    return any(m not in got for m in logged_after)


CLASSIFIERS = {"c12_append_behind_torn_frame": append_behind_torn_frame_witness, "c12_equal_timestamps": equal_stamp_witness, "c12_replay_setpos_file_name": replay_setpos_witness,
               "c12_damaged_timestamp_ahead": damaged_timestamp_ahead_witness, "c12_damaged_wrong_type": damaged_wrong_type_witness,
               "c12_connect_window": connect_window_witness}


# Harmless rewrites of the anchored code on which the whole check was run (mutated object files in scratch, full flow):
# each exits 0 without a VIOLATION line.  The patches are kept as documentation in corpus/C12/negative_controls/*.diff.
NEGATIVE_CONTROLS = [
    "n1_replaylog_refactored: ReplayLog with renamed locals (peer_ts, logpos_ts, last_sync), reordered declarations, the secobj visibility test extracted into a lambda",
    "n2_message_texts: other wording of every log/warning text in PersistMessage/OpenLogFile/RotateLogFile/ReplayLog/ApiTimerHandler and in MessageHandler",
    "n3_free_choices: two extra bookkeeping fields in the persisted record (different bytes, sizes, key set), rotation threshold 20000 instead of 50000, the timer "
    "visits the endpoints in reverse order, the in-replay SetLogPosition is queued every 25 s of log instead of every 10 s",
    "n4_guard_spellings: `!tooOld && !(ts <= pos)` in the clean-up, `!(timestamp > peer_ts)` in ReplayLog, early return in RotateLogFile, `!(ts != 0)`, "
    "if/else instead of early return in MessageHandler, std::max in SetLogPositionHandler",
    "n5_renamed_helper_comments_moves: static helper LogGlobHandler renamed (header and source), RotateLogFile's definition moved in front of OpenLogFile, "
    "added comments and braces around the members the harness reaches by explicit instantiation (m_LogFile, m_LogMessageCount)",
]
# What keeps them silent (DESIGN.md §0.3): the record's bytes are an oracle input (the model is given the frame PersistMessage wrote and only checks
# the netstring framing); files are compared as DECODED record sequences read by the production reader (`dump`), `ls` compares names only; WHEN
# PersistMessage rotates follows the implementation (the threshold is no part of the property); queues are compared as sequences of replayed events,
# the interleaved log::SetLogPosition messages are judged by the clause confirmation_not_beyond_received alone (replay and timer).


class C12(StdCheck):
    prop = "C12"
    required_theorems = ["replay_exact_partial", "replay_exact_counterexample", "replay_exact", "confirmed_not_replayed",
                         "receiver_ignores_old", "position_monotone", "cleanup_safe", "truncation_tolerant",
                         "damage_tolerant", "survives_restart", "relay_persists", "rel_init", "step_meets_spec", "model_positions_justified",
                         "model_trace_meets_spec_partial", "timer_confirmation_sound", "confirmation_counterexample",
                         "premature_confirmation_counterexample", "other_files_replayed_partial", "other_files_replayed_counterexample",
                         "live_only_when_in_sync", "model_no_live_before_sync_partial", "no_live_before_sync_counterexample",
                         "crash_restart_exact", "reachable_rel", "crash_anywhere_after_any_history",
                         "persisted_after_crash_partial", "persisted_after_crash_counterexample"]
    technique = ("Lean 4 proof about an executable transcription of PersistMessage/RotateLogFile/ReplayLog/the clean-up timer and "
                 "the receiver's filter (fold invariants over the records, the pass structure of ReplayLog, C20's netstring "
                 "prefix theorem for damaged files); correspondence by differential execution of a real in-process ApiListener "
                 "(log on disk, real JsonRpcConnection queues, restarts as new processes, every byte offset of a 3-file log)")
    level_text = ("Machine-checked theorems: for every well-formed log directory (strictly increasing timestamps) ReplayLog sends "
                  "exactly the unconfirmed records the peer's zone may see, in order, none twice, in at most three passes; for ANY "
                  "directory content it never sends a confirmed or invisible record and only a subsequence of what is on disk; the "
                  "receiver drops exactly the messages older than its position; positions are monotone; the clean-up never "
                  "deletes a file a related endpoint inside its log_duration still needs; a file cut at any byte offset yields "
                  "exactly the records wholly inside the cut, and with ANY bytes behind the intact part those records still come first; a "
                  "restart without byte loss changes nothing, and a crash that keeps only the first k bytes of `current`, for ANY k, followed by a new process "
                  "makes ReplayLog send exactly the wanted records of all rotated files and of the frames wholly inside the k bytes (crash_restart_exact), "
                  "also after EVERY operation history of the model node (crash_anywhere_after_any_history); and the whole-trace theorem: for every operation sequence (events, "
                  "connects, replays, rotations, clean-ups, acknowledgements, incoming messages, crash-restarts, graceful stop-and-start restarts, runtime removal of a "
                  "security object) under a strictly "
                  "advancing clock the model node's observed trace satisfies the executable specification, including the clause that every new process comes up "
                  "with the endpoint positions of the old one; records appended after a crash that cut between two frames are read back (persisted_after_crash_partial); for ANY content of a damaged file the wanted records of the "
                  "files behind it are sent as long as the garbage carries no timestamp above theirs; an event is queued live only for connected, "
                  "non-syncing endpoints, and for every operation sequence in which SyncClient is under way as soon as a connection exists nothing is "
                  "queued live in front of that connection's replay and every SyncClient run ends with `syncing` clear. The model is tied to "
                  "the code by running the real ApiListener (RelayMessage, SyncClient -> ReplayLog for EVERY replay, RotateLogFile, the timer through the pump, "
                  "MessageHandler) on seeded operation sequences with restarts as new processes, files compared as decoded record sequences, and "
                  "every cut offset of multi-file logs; the endpoint positions and log_message_timestamp reach the next process through the REAL state file "
                  "(ConfigObject::DumpObjects when a process ends, ConfigObject::RestoreObjects before the next one activates - nothing is installed by hand); "
                  "the specification predicate is evaluated on the implementation's trace")
    level_note = ("Trusted: Lean kernel (+ propext, Classical.choice, Quot.sound), harness/driver, C20's netstring model. The JSON text of a "
                  "record is an oracle input (the bytes PersistMessage wrote are handed to the model, which checks the framing and "
                  "decodes by table); whether the peer's zone may see an object is read from the implementation (CanAccessObject is C13) "
                  "and cross-checked against the topology in the spec. The exactness theorem needs strictly increasing timestamps: "
                  "with equal stamps the code loses events (F-C12a, known finding, kernel-checked counterexample). The whole-trace theorem covers every clause except confirmation_not_beyond_received, which the code violates inside ReplayLog (F-C12c, known finding: kernel-checked counterexamples for the clause and for the loss between two nodes; the timer's confirmations are proved sound); the check also runs the two-node schedule on two real node processes, shuttling the queued messages itself. Three further known findings on the unchanged tree, each with a kernel-checked counterexample or a statement of what the model omits: F-C12d (a still well-framed record with a too large timestamp in one file suppresses intact records of other files; `other_files_replayed_counterexample`), F-C12e (a record whose timestamp is no number / whose secobj is no dictionary throws outside ReplayLog's try block, SyncClient swallows it, later files are never replayed; the model's decoder has no such third outcome, the finding is carried by the implementation trace alone), F-C12f (an event relayed between Endpoint::AddClient and the start of the queued SyncClient is sent live in front of the replay; `no_live_before_sync_counterexample`). Security objects of two TYPES share their names (Zone and ApiUser called master/sat/agent/zx/g, living in different zones), so that visibility decided by name alone is a spec failure (replay_complete / replay_visible). F-C12g (found in round 4): after a crash that tore the last frame of `current`, ApiListener::Start reopens the file for appending and every event the new process persists lands behind the torn frame, where ReplayLog's reader never gets - clause persisted_after_crash_replayed, judged on its own over exactly those events and switched off by any other damage, `persisted_after_crash_counterexample`; the whole-trace theorem's crash-restarts lose no byte, byte-losing crashes are covered by crash_anywhere_after_any_history (one replay after the crash) and on the implementation's traces. A crash of the real code in any operation is reported by the harness as an observation (`<op> | DIED <signal>`) and fails the clause no_crash with the operation sequence as replay.")
    trusted_base = [
        "modelled, not verified: JSON encoding of a record (oracle bytes + table decode), Zone::CanAccessObject (oracle bits), "
        "Boost.Asio strands delivering posted sends in order, the file system (rename/unlink/append as the model says)",
        "state file: DumpObjects/RestoreObjects themselves are C14's subject; here they are only the vehicle (the model keeps the positions across a restart, "
        "the spec clause restart_keeps_positions demands it of the implementation)",
        "not modelled: events relayed while the endpoint is connected but still syncing (Q-C12b, outside the statement), origin-based "
        "skipping in RelayMessageOne (events are locally generated; the position advance of skipped endpoints IS modelled, incl. two-endpoint "
        "child and parent zones whose std::set iteration order is an oracle input), "
        "concurrent PersistMessage during an unlocked replay pass, events relayed WHILE SyncClient runs (the harness relays between operations only; "
        "the window between AddClient and SyncClient is driven by the `attach` operation), SyncClient's certificate request and config sync "
        "(their messages are dropped from the observed queue), exceptions escaping ReplayLog (F-C12e: observed on the implementation only)",
    ]
    assumptions = ["timestamps are non-negative µs integers, exact in binary64", "one endpoint per non-local zone",
                   "the virtual clock advances by >= 1 µs per relayed event except in the named equal-stamp case"]
    rule = ("4 named cases with events about same-named objects of two types in both orders replayed to all six peers; 3 named connect-window cases "
            "(attach, event, SyncClient); 2 three-file logs with each of 22 kinds of well-framed damaged record (not JSON, JSON but no dictionary, no / non-numeric / "
            "too large / old timestamp, secobj or message of a wrong type) behind EVERY frame boundary of every file; 1 three-file log with every 3rd (thorough: every) "
            "byte replaced in place by '9', '0' and '\"'; every replay goes through the real SyncClient; "
            "12 named sibling schedules (both endpoints of the two-endpoint child / parent zone away, events persisted, one returns and carries further "
            "events, then the other returns; with/without rotation, master question, second disconnect); 4 (thorough 7) cases with records of 1 MiB-1, "
            "1 MiB, 1 MiB+1, 2 MiB (thorough also 5 MiB, 3 MB) followed by later events in the same and the next file; two real nodes (X replays first, Y handles X's queue before / after its own ReplayLog); 1 named equal-timestamp case; 1 named regression case with a `null` record in the first of two files (F-C12b, fixed); 3 named receiver cases (messages with ts equal to the recorded position and 1 µs around it, also across crash and stop restarts); 2 (thorough 5) three-file logs cut at EVERY byte offset of every file followed by ReplayLog; "
            "1200 (thorough 6000) seeded random cases of 8..38 (..58) operations over relay (6 kinds of security object) / connect / "
            "disconnect / ReplayLog / rotate / timer / acknowledge / receive (two thirds of them at the recorded remote position -1/0/+1 µs) / stop / crash (with byte loss) / start / object removal / "
            "counter preset 49998..50000 / permanent and temporary damage with random bytes or a well-framed damaged record at a frame boundary / attach without SyncClient, 11 security objects (none, 5 zones, 5 same-named objects of another type), 6 peers (A in the local zone, B and D in a two-endpoint child zone, C in a grandchild zone, E and F in a two-endpoint parent zone) with log_duration from "
            "{-1,0,5,60,3600,86400}, local node master or not. evaluations = "
            "operations compared; a case is non-trivial when a replay delivered at least one event (counted by the Lean driver)")

    # --- shrinking under a budget: the check must end within minutes on a badly broken tree as well ---------------
    max_shrunk = 3            # witnesses per spec clause, and model/implementation disagreements, that are shrunk
    shrink_wall = 25.0        # CPU seconds per witness (see _cpu_now)
    shrink_calls = 150        # harness invocations per witness
    shrink_total = 170.0      # CPU seconds for all witnesses of one run together

    def shrink(self, harness, driver, case, prefix, sub=""):
        """ddmin through the harness's ops mode, bounded by wall time and by the number of harness invocations; the best
        reduction found so far is returned when a bound is hit."""
        t0 = _cpu_now()
        deadline = min(t0 + self.shrink_wall, getattr(self, "_deadline", t0 + self.shrink_wall))
        calls = [0]

        def fails(ls):
            if calls[0] >= self.shrink_calls or _cpu_now() > deadline:
                return False
            calls[0] += 1
            return self._fails(harness, driver, ls, prefix, sub)

        hdr, ops = case[:1], case[1:]
        if not fails(hdr + ops):
            return case          # not reproducible in isolation, or no budget left: the observed case itself is the witness
        ops = runner.ddmin(hdr, ops, fails)
        if self._fails(harness, driver, hdr + ops, prefix, sub):
            return open(self.work("shrink.out")).read().splitlines()
        return case

    def collect(self, res, lines, save, harness, driver):
        """At most `max_shrunk` witnesses per clause and `max_shrunk` disagreements, the shortest failing cases first, each
        cut after the line the driver complained about; everything else is only counted."""
        if not hasattr(self, "_deadline"):
            self._deadline = _cpu_now() + self.shrink_total
        bad = [l for l in lines if l.startswith("BADLINE")]
        if bad:
            res.corr_failures.append(runner.Finding("corr", "protocol", bad[:5]))
        fails = [l for l in lines if l.startswith(("SPECFAIL", "MISMATCH"))]
        if not fails:
            return
        all_lines = open(save, errors="replace").read().splitlines()
        starts = [i for i, l in enumerate(all_lines) if l.startswith(self.case_start + " ")]
        import bisect

        def case_upto(line_no):
            i = line_no - 1
            k = bisect.bisect_right(starts, i) - 1
            return all_lines[starts[k]:i + 1] if k >= 0 else []

        groups = {}
        for l in fails:
            kv = core.parse_kv(l)
            key = (("spec", kv.get("clause", "?") + (" kind=" + kv["kind"] if "kind" in kv else "") +
                    (" dmg=" + kv["dmg"] if "dmg" in kv else "")) if l.startswith("SPECFAIL")
                   else ("corr", kv.get("op", "observation")))
            try:
                case = case_upto(int(kv["line"]))
            except (KeyError, ValueError):
                continue
            if "dmg" in kv and case:
                # a probe restores the file: the other probes (and read-only listings) of the case are no part of the witness
                case = [c for c in case[:-1] if not c.startswith(("probe ", "dump ", "ls ", "cutall ", "flipall "))] + case[-1:]
            if case:
                groups.setdefault(key, []).append((len(case), case, l))
        res.extra["failing_cases_by_kind"] = {f"{k[0]}:{k[1]}": len(v) for k, v in groups.items()}
        n_corr = 0
        # spec clauses first (they carry the concrete failing input), then disagreements
        for key in sorted(groups, key=lambda k: (k[0] != "spec", k[1])):
            recorded_shape = key == ("spec", "confirmation_not_beyond_received kind=replay_file_name")
            cands = sorted(groups[key], key=lambda c: c[0])[:self.max_shrunk]
            if key[0] == "spec" and cands:
                # one witness is enough where the shortest one has a recorded shape (known finding)
                cl0 = key[1].split(" ")[0]
                try:
                    if recorded_shape or any(fn(cl0, [x for x in cands[0][1] if x.strip()]) for fn in
                                             (damaged_timestamp_ahead_witness, damaged_wrong_type_witness, connect_window_witness, append_behind_torn_frame_witness)):
                        cands = cands[:1]
                except (ValueError, IndexError, KeyError):
                    pass
            for _, case, l in cands:
                if key[0] == "spec":
                    clause, _, kind = key[1].partition(" dmg=")[0].partition(" kind=")
                    dmg = key[1].partition(" dmg=")[2]
                    try:
                        as_is = any(fn(clause, [x for x in case if x.strip()]) for fn in
                                    (damaged_timestamp_ahead_witness, damaged_wrong_type_witness, connect_window_witness, append_behind_torn_frame_witness))
                    except (ValueError, IndexError, KeyError):
                        as_is = False
                    # a case that already has a recorded shape is its own witness (it was observed in this very run)
                    shown = case if as_is else self.shrink(harness, driver, case, "SPECFAIL", "clause=" + key[1])
                    what = f"spec:{self.prop}:{clause}" + (":" + kind if kind and not recorded_shape else "") + \
                        (":damage_" + ("none" if dmg == "-" else dmg) if dmg else "")
                    res.spec_failures.append(runner.Finding("spec", what, shown, {"driver": l}, {"kind": kind}))
                else:
                    if n_corr >= self.max_shrunk:
                        break
                    n_corr += 1
                    shown = self.shrink(harness, driver, case, "MISMATCH", "op=" + key[1])
                    res.corr_failures.append(runner.Finding("corr", key[1], shown, {"driver": l}))

    def correspondence(self, tier, seed, harness, driver):
        self._deadline = _cpu_now() + self.shrink_total
        res = super().correspondence(tier, seed, harness, driver)
        # the generic flow reports the FIRST finding of a clause: a witness of the recorded shape (F-C12a) must never
        # stand in front of a different failure of the same clause
        self.two_node(res, harness)
        res.spec_failures.sort(key=lambda f: self._recorded_shape(f))
        return res

    def _recorded_shape(self, f):
        clause = f.what.split(":")[2] if f.what.count(":") >= 2 else ""
        lines = [l for l in f.case_lines if l.strip()]
        kind = f.classifier_data.get("kind", "")
        try:
            return bool(equal_stamp_witness(clause, lines) or replay_setpos_witness(clause, lines, kind or "replay_file_name")
                        or two_node_witness(clause, lines, kind) or damaged_timestamp_ahead_witness(clause, lines)
                        or damaged_wrong_type_witness(clause, lines) or connect_window_witness(clause, lines)
                        or append_behind_torn_frame_witness(clause, lines))
        except (ValueError, IndexError, KeyError):
            return False

    # --- Q-C12c / F-C12c with two real nodes: X = endpoint aaa, Y = endpoint zzz of the same zone, this side shuttles the queues
    def two_node(self, res, harness):
        T = 1000000 * 10 ** 6

        def run(name, ops):
            f = self.work("two_node_" + name + ".ops")
            with open(f, "w") as fh:
                fh.write("\n".join(ops) + "\n")
            rc, out = core.run([harness, "ops", f])
            if rc != 0:
                raise core.TieBroken("harness:c12:two-node", out[-2000:])
            return [l for l in out.splitlines() if " | " in l or l.startswith("C ")]

        def replay_out(lines, idx=0):
            outs = [l.split(" | ")[1].split()[1] for l in lines if l.startswith("replay")]
            return [] if not outs or outs[idx] == "-" else outs[idx].split(",")

        def shuttle(items):          # what the receiving node does with the sender's queue, in order
            ops, from_replay_setpos = [], 0
            for it in items:
                if it.startswith("M"):
                    ops.append("recv A " + it.split("@")[1])
                elif it.startswith("L"):
                    ops.append("ack A " + it[1:])
                    from_replay_setpos += 1
            return ops, from_replay_setpos

        durs = " ".join(["86400"] * 6)
        x = run("X", [f"C 1 {T} 0 {durs}", f"relay {T + 1} 101 -", "conn A", f"replay {T + 1000000} A"])
        x_items = replay_out(x)
        sh, n_setpos = shuttle(x_items)
        ybase = [f"C 1 {T} 1 {durs}", f"relay {T + 500000} 201 -", f"relay {T + 700000} 202 -"]
        logged = {f"M201@{T + 500000}", f"M202@{T + 700000}"}
        # S0: Y's SyncClient reaches ReplayLog before X's replayed messages are handled; S1: after (both happen in production)
        y0 = run("Y0", ybase + ["conn A", f"replay {T + 1000100} A"] + sh)
        y1 = run("Y1", ybase + ["conn A"] + sh + [f"replay {T + 1000100} A", "disc A", f"timer {T + 9000000}", "conn A",
                                                  f"replay {T + 20000000} A"])
        got0 = set(replay_out(y0)) & logged
        got1 = (set(replay_out(y1, 0)) | set(replay_out(y1, 1))) & logged
        res.extra["two_node"] = {"x_replay_queue": x_items, "y_logged": sorted(logged), "delivered_if_y_replays_first": sorted(got0),
                                 "delivered_if_x_replay_is_handled_first": sorted(got1)}
        res.evaluations += len(x) + len(y0) + len(y1)
        if got0 != logged or got1 != logged:
            kind = "setpos_from_peer_replay" if (got0 == logged and n_setpos > 0 and
                                                 all(o.startswith(("recv", "ack")) for o in sh)) else "other"
            res.spec_failures.append(runner.Finding(
                "spec", f"spec:{self.prop}:two_node_loss", x + y1,      # case 1: node X; case 2: node Y, X's queue handled before Y's own ReplayLog
                {"lost": sorted(logged - got1), "lost_when_y_first": sorted(logged - got0)}, {"kind": kind}))

    def replay(self, path, harness, driver):
        import json
        data = json.load(open(path))
        if str(data.get("what", "")).endswith("two_node_loss"):
            res = runner.Result()
            self.two_node(res, harness)
            print(json.dumps(res.extra["two_node"], indent=1))
            return not res.spec_failures
        return super().replay(path, harness, driver)

    def matches_known(self, entry, finding):
        fn = CLASSIFIERS.get(entry.get("classifier"))
        if fn is None or finding.kind != "spec":
            return False
        clause = finding.what.split(":")[2] if finding.what.count(":") >= 2 else ""
        kind = finding.classifier_data.get("kind", "")
        lines = [l for l in finding.case_lines if l.strip()]
        try:
            if fn in (equal_stamp_witness, damaged_timestamp_ahead_witness, damaged_wrong_type_witness, connect_window_witness,
                      append_behind_torn_frame_witness):
                return bool(fn(clause, lines))
            # F-C12c: the in-replay confirmation itself, or its consequence between two nodes
            return bool(replay_setpos_witness(clause, lines, kind or "replay_file_name") or two_node_witness(clause, lines, kind))
        except (ValueError, IndexError, KeyError):
            return False


CHECK = C12()

"""C12 — replay log: events for a disconnected peer are kept and replayed in order.  DESIGN.md §2 C12."""
import time

from vlib import core, runner
from .base import StdCheck


def _ops(lines):
    return [l.split(" | ")[0].split() for l in lines if l.strip()]


def equal_stamp_witness(clause, lines):
    """F-C12a: the minimised witness consists of events relayed under a clock that did not advance and a
    replay that misses exactly the later ones of each group of equal timestamps — nothing else is going on
    (no damage, no clean-up, no acknowledgement, no restart, no rotation)."""
    if clause != "replay_complete":
        return False
    ops = _ops(lines)
    if any(o[0] not in ("C", "relay", "conn", "disc", "replay") for o in ops):
        return False
    logged = []
    out = None
    for l in lines:
        pre, _, post = l.partition(" | ")
        w, o = pre.split(), post.split()
        if w and w[0] == "relay" and o and o[0] != "-":
            logged.append((int(w[1]), w[2]))
        if w and w[0] == "replay" and len(o) >= 2:
            out = set(o[1].split(","))
    if out is None or len(logged) < 2:
        return False
    missing = [(i, ts, ident) for i, (ts, ident) in enumerate(logged) if f"M{ident}@{ts}" not in out]
    if not missing:
        return False
    return all(any(ts2 == ts for (ts2, _) in logged[:i]) for (i, ts, _) in missing)


def _file_names(lines):
    """file names (seconds) the witness shows: created by rotations, listed, or the `current` of a replay (now + 1 s)"""
    names = set()
    for l in lines:
        pre, _, post = l.partition(" | ")
        w, o = pre.split(), post.split()
        if not w:
            continue
        if w[0] in ("rotate", "stop") and o and o[0] != "-":
            names.add(int(o[0]))
        if w[0] == "relay" and len(o) >= 3 and o[2] != "-":
            names.add(int(o[2]))
        if w[0] == "ls" and o and o[0] != "-":
            names.update(int(x.split(":")[0]) for x in o[0].split(","))
        if w[0] == "replay":
            names.add(int(w[1]) // 1000000 + 1)
        if w[0] == "probe":
            names.add(int(w[4]) // 1000000 + 1)
    return names


def replay_setpos_witness(clause, lines, kind="replay_file_name"):
    """F-C12c: every confirmation beyond the received position in the witness was sent INSIDE ReplayLog, directly after a
    replayed message, and carries the name (whole seconds) of a log file being replayed.  A too-large position from the
    timer, or any other value, is not of this shape."""
    if clause != "confirmation_not_beyond_received" or kind != "replay_file_name":
        return False
    names = _file_names(lines)
    peers = {"A": 0, "B": 1, "C": 2, "D": 3, "E": 4, "F": 5}
    found = False
    prev_pos = None
    for l in lines:
        pre, _, post = l.partition(" | ")
        w, o = pre.split(), post.split()
        if not w or not o:
            continue
        pos = [int(x) for x in o[-1].split(",")] if "," in o[-1] else None
        if w[0] == "timer" and len(o) >= 8:
            before = prev_pos or [0] * 12
            for p, out in enumerate(o[1:7]):
                if any(it.startswith("L") and int(it[1:]) > before[2 * p + 1] for it in out.split(",")):
                    return False
        if w[0] in ("replay", "probe") and len(o) >= 3 and pos:
            p = peers[w[2] if w[0] == "replay" else w[5]]
            rpos = pos[2 * p + 1]                  # ReplayLog does not touch the positions
            items = o[1].split(",")
            for i, it in enumerate(items):
                if it.startswith("L") and int(it[1:]) > rpos:
                    v = int(it[1:])
                    if v % 1000000 != 0 or v // 1000000 not in names or i == 0 or not items[i - 1].startswith("M"):
                        return False
                    found = True
        if pos:
            prev_pos = pos
    return found


def two_node_witness(clause, lines, kind=""):
    """F-C12c seen from both ends: the only acknowledgements node Y handled before its own ReplayLog are the SetLogPosition
    messages node X's ReplayLog had queued (the check records that provenance itself)."""
    return clause == "two_node_loss" and kind == "setpos_from_peer_replay"


CLASSIFIERS = {"c12_equal_timestamps": equal_stamp_witness, "c12_replay_setpos_file_name": replay_setpos_witness}


# Harmless rewrites of the anchored code on which the whole check was run (mutated object files in scratch, full flow):
# each exits 0 without a VIOLATION line.  The patches are kept as documentation in corpus/C12/negative_controls/*.diff.
NEGATIVE_CONTROLS = [
    "n1_replaylog_refactored: ReplayLog with renamed locals (peer_ts, logpos_ts, last_sync), reordered declarations, the secobj visibility test extracted into a lambda",
    "n2_message_texts: other wording of every log/warning text in PersistMessage/OpenLogFile/RotateLogFile/ReplayLog/ApiTimerHandler and in MessageHandler",
    "n3_free_choices: two extra bookkeeping fields in the persisted record (different bytes, sizes, key set), rotation threshold 20000 instead of 50000, the timer "
    "visits the endpoints in reverse order, the in-replay SetLogPosition is queued every 25 s of log instead of every 10 s",
    "n4_guard_spellings: `!tooOld && !(ts <= pos)` in the clean-up, `!(timestamp > peer_ts)` in ReplayLog, early return in RotateLogFile, `!(ts != 0)`, "
    "if/else instead of early return in MessageHandler, std::max in SetLogPositionHandler",
    "n5_renamed_helper_comments_moves: static helper LogGlobHandler renamed (header and source), RotateLogFile's definition moved in front of OpenLogFile, "
    "added comments and braces around the members the harness reaches by explicit instantiation (m_LogFile, m_LogMessageCount)",
]
# What keeps them silent (DESIGN.md §0.3): the record's bytes are an oracle input (the model is given the frame PersistMessage wrote and only checks
# the netstring framing); files are compared as DECODED record sequences read by the production reader (`dump`), `ls` compares names only; WHEN
# PersistMessage rotates follows the implementation (the threshold is no part of the property); queues are compared as sequences of replayed events,
# the interleaved log::SetLogPosition messages are judged by the clause confirmation_not_beyond_received alone (replay and timer).


class C12(StdCheck):
    prop = "C12"
    required_theorems = ["replay_exact_partial", "replay_exact_counterexample", "replay_exact", "confirmed_not_replayed",
                         "receiver_ignores_old", "position_monotone", "cleanup_safe", "truncation_tolerant",
                         "damage_tolerant", "survives_restart", "relay_persists", "rel_init", "step_meets_spec", "model_positions_justified",
                         "model_trace_meets_spec_partial", "timer_confirmation_sound", "confirmation_counterexample",
                         "premature_confirmation_counterexample"]
    technique = ("Lean 4 proof about an executable transcription of PersistMessage/RotateLogFile/ReplayLog/the clean-up timer and "
                 "the receiver's filter (fold invariants over the records, the pass structure of ReplayLog, C20's netstring "
                 "prefix theorem for damaged files); correspondence by differential execution of a real in-process ApiListener "
                 "(log on disk, real JsonRpcConnection queues, restarts as new processes, every byte offset of a 3-file log)")
    level_text = ("Machine-checked theorems: for every well-formed log directory (strictly increasing timestamps) ReplayLog sends "
                  "exactly the unconfirmed records the peer's zone may see, in order, none twice, in at most three passes; for ANY "
                  "directory content it never sends a confirmed or invisible record and only a subsequence of what is on disk; the "
                  "receiver drops exactly the messages older than its position; positions are monotone; the clean-up never "
                  "deletes a file a related endpoint inside its log_duration still needs; a file cut at any byte offset yields "
                  "exactly the records wholly inside the cut, and with ANY bytes behind the intact part those records still come first; a "
                  "restart without byte loss changes nothing; and the whole-trace theorem: for every operation sequence (events, "
                  "connects, replays, rotations, clean-ups, acknowledgements, incoming messages, crash-restarts) under a strictly "
                  "advancing clock the model node's observed trace satisfies the executable specification. The model is tied to "
                  "the code by running the real ApiListener (RelayMessage, ReplayLog, RotateLogFile, the timer through the pump, "
                  "MessageHandler) on seeded operation sequences with restarts as new processes, files compared as decoded record sequences, and "
                  "every cut offset of multi-file logs; the specification predicate is evaluated on the implementation's trace")
    level_note = ("Trusted: Lean kernel (+ propext, Classical.choice, Quot.sound), harness/driver, C20's netstring model. The JSON text of a "
                  "record is an oracle input (the bytes PersistMessage wrote are handed to the model, which checks the framing and "
                  "decodes by table); whether the peer's zone may see an object is read from the implementation (CanAccessObject is C13) "
                  "and cross-checked against the topology in the spec. The exactness theorem needs strictly increasing timestamps: "
                  "with equal stamps the code loses events (F-C12a, known finding, kernel-checked counterexample). The whole-trace theorem covers every clause except confirmation_not_beyond_received, which the code violates inside ReplayLog (F-C12c, known finding: kernel-checked counterexamples for the clause and for the loss between two nodes; the timer's confirmations are proved sound); the check also runs the two-node schedule on two real node processes, shuttling the queued messages itself. A crash of the real code in any operation is reported by the harness as an observation (`<op> | DIED <signal>`) and fails the clause no_crash with the operation sequence as replay.")
    trusted_base = [
        "modelled, not verified: JSON encoding of a record (oracle bytes + table decode), Zone::CanAccessObject (oracle bits), "
        "Boost.Asio strands delivering posted sends in order, the file system (rename/unlink/append as the model says)",
        "not modelled: events relayed while the endpoint is connected but still syncing (Q-C12b, outside the statement), origin-based "
        "skipping in RelayMessageOne (events are locally generated; the position advance of skipped endpoints IS modelled, incl. two-endpoint "
        "child and parent zones whose std::set iteration order is an oracle input), "
        "concurrent PersistMessage during an unlocked replay pass",
    ]
    assumptions = ["timestamps are non-negative µs integers, exact in binary64", "one endpoint per non-local zone",
                   "the virtual clock advances by >= 1 µs per relayed event except in the named equal-stamp case"]
    rule = ("12 named sibling schedules (both endpoints of the two-endpoint child / parent zone away, events persisted, one returns and carries further "
            "events, then the other returns; with/without rotation, master question, second disconnect); 4 (thorough 7) cases with records of 1 MiB-1, "
            "1 MiB, 1 MiB+1, 2 MiB (thorough also 5 MiB, 3 MB) followed by later events in the same and the next file; two real nodes (X replays first, Y handles X's queue before / after its own ReplayLog); 1 named equal-timestamp case; 1 named regression case with a `null` record in the first of two files (F-C12b, fixed); 3 named receiver cases (messages with ts equal to the recorded position and 1 µs around it, also across crash and stop restarts); 2 (thorough 5) three-file logs cut at EVERY byte offset of every file followed by ReplayLog; "
            "1200 (thorough 6000) seeded random cases of 8..38 (..58) operations over relay (6 kinds of security object) / connect / "
            "disconnect / ReplayLog / rotate / timer / acknowledge / receive (two thirds of them at the recorded remote position -1/0/+1 µs) / stop / crash (with byte loss) / start / object removal / "
            "counter preset 49998..50000 / permanent and temporary damage with random bytes, 6 peers (A in the local zone, B and D in a two-endpoint child zone, C in a grandchild zone, E and F in a two-endpoint parent zone) with log_duration from "
            "{-1,0,5,60,3600,86400}, local node master or not. evaluations = "
            "operations compared; a case is non-trivial when a replay delivered at least one event (counted by the Lean driver)")

    # --- shrinking under a budget: the check must end within minutes on a badly broken tree as well ---------------
    max_shrunk = 3            # witnesses per spec clause, and model/implementation disagreements, that are shrunk
    shrink_wall = 25.0        # seconds per witness
    shrink_calls = 150        # harness invocations per witness
    shrink_total = 170.0      # seconds for all witnesses of one run together

    def shrink(self, harness, driver, case, prefix, sub=""):
        """ddmin through the harness's ops mode, bounded by wall time and by the number of harness invocations; the best
        reduction found so far is returned when a bound is hit."""
        t0 = time.time()
        deadline = min(t0 + self.shrink_wall, getattr(self, "_deadline", t0 + self.shrink_wall))
        calls = [0]

        def fails(ls):
            if calls[0] >= self.shrink_calls or time.time() > deadline:
                return False
            calls[0] += 1
            return self._fails(harness, driver, ls, prefix, sub)

        hdr, ops = case[:1], case[1:]
        if not fails(hdr + ops):
            return case          # not reproducible in isolation, or no budget left: the observed case itself is the witness
        ops = runner.ddmin(hdr, ops, fails)
        if self._fails(harness, driver, hdr + ops, prefix, sub):
            return open(self.work("shrink.out")).read().splitlines()
        return case

    def collect(self, res, lines, save, harness, driver):
        """At most `max_shrunk` witnesses per clause and `max_shrunk` disagreements, the shortest failing cases first, each
        cut after the line the driver complained about; everything else is only counted."""
        if not hasattr(self, "_deadline"):
            self._deadline = time.time() + self.shrink_total
        bad = [l for l in lines if l.startswith("BADLINE")]
        if bad:
            res.corr_failures.append(runner.Finding("corr", "protocol", bad[:5]))
        fails = [l for l in lines if l.startswith(("SPECFAIL", "MISMATCH"))]
        if not fails:
            return
        all_lines = open(save, errors="replace").read().splitlines()
        starts = [i for i, l in enumerate(all_lines) if l.startswith(self.case_start + " ")]
        import bisect

        def case_upto(line_no):
            i = line_no - 1
            k = bisect.bisect_right(starts, i) - 1
            return all_lines[starts[k]:i + 1] if k >= 0 else []

        groups = {}
        for l in fails:
            kv = core.parse_kv(l)
            key = (("spec", kv.get("clause", "?") + (" kind=" + kv["kind"] if "kind" in kv else "")) if l.startswith("SPECFAIL")
                   else ("corr", kv.get("op", "observation")))
            try:
                case = case_upto(int(kv["line"]))
            except (KeyError, ValueError):
                continue
            if case:
                groups.setdefault(key, []).append((len(case), case, l))
        res.extra["failing_cases_by_kind"] = {f"{k[0]}:{k[1]}": len(v) for k, v in groups.items()}
        n_corr = 0
        # spec clauses first (they carry the concrete failing input), then disagreements
        for key in sorted(groups, key=lambda k: (k[0] != "spec", k[1])):
            recorded_shape = key == ("spec", "confirmation_not_beyond_received kind=replay_file_name")
            cands = sorted(groups[key], key=lambda c: c[0])[:1 if recorded_shape else self.max_shrunk]
            for _, case, l in cands:
                if key[0] == "spec":
                    clause, _, kind = key[1].partition(" kind=")
                    shown = self.shrink(harness, driver, case, "SPECFAIL", "clause=" + key[1])
                    what = f"spec:{self.prop}:{clause}" + (":" + kind if kind and not recorded_shape else "")
                    res.spec_failures.append(runner.Finding("spec", what, shown, {"driver": l}, {"kind": kind}))
                else:
                    if n_corr >= self.max_shrunk:
                        break
                    n_corr += 1
                    shown = self.shrink(harness, driver, case, "MISMATCH", "op=" + key[1])
                    res.corr_failures.append(runner.Finding("corr", key[1], shown, {"driver": l}))

    def correspondence(self, tier, seed, harness, driver):
        self._deadline = time.time() + self.shrink_total
        res = super().correspondence(tier, seed, harness, driver)
        # the generic flow reports the FIRST finding of a clause: a witness of the recorded shape (F-C12a) must never
        # stand in front of a different failure of the same clause
        self.two_node(res, harness)
        res.spec_failures.sort(key=lambda f: self._recorded_shape(f))
        return res

    def _recorded_shape(self, f):
        clause = f.what.split(":")[2] if f.what.count(":") >= 2 else ""
        lines = [l for l in f.case_lines if l.strip()]
        kind = f.classifier_data.get("kind", "")
        try:
            return bool(equal_stamp_witness(clause, lines) or replay_setpos_witness(clause, lines, kind or "replay_file_name")
                        or two_node_witness(clause, lines, kind))
        except (ValueError, IndexError, KeyError):
            return False

    # --- Q-C12c / F-C12c with two real nodes: X = endpoint aaa, Y = endpoint zzz of the same zone, this side shuttles the queues
    def two_node(self, res, harness):
        T = 1000000 * 10 ** 6

        def run(name, ops):
            f = self.work("two_node_" + name + ".ops")
            with open(f, "w") as fh:
                fh.write("\n".join(ops) + "\n")
            rc, out = core.run([harness, "ops", f])
            if rc != 0:
                raise core.TieBroken("harness:c12:two-node", out[-2000:])
            return [l for l in out.splitlines() if " | " in l or l.startswith("C ")]

        def replay_out(lines, idx=0):
            outs = [l.split(" | ")[1].split()[1] for l in lines if l.startswith("replay")]
            return [] if not outs or outs[idx] == "-" else outs[idx].split(",")

        def shuttle(items):          # what the receiving node does with the sender's queue, in order
            ops, from_replay_setpos = [], 0
            for it in items:
                if it.startswith("M"):
                    ops.append("recv A " + it.split("@")[1])
                elif it.startswith("L"):
                    ops.append("ack A " + it[1:])
                    from_replay_setpos += 1
            return ops, from_replay_setpos

        durs = " ".join(["86400"] * 6)
        x = run("X", [f"C 1 {T} 0 {durs}", f"relay {T + 1} 101 -", "conn A", f"replay {T + 1000000} A"])
        x_items = replay_out(x)
        sh, n_setpos = shuttle(x_items)
        ybase = [f"C 1 {T} 1 {durs}", f"relay {T + 500000} 201 -", f"relay {T + 700000} 202 -"]
        logged = {f"M201@{T + 500000}", f"M202@{T + 700000}"}
        # S0: Y's SyncClient reaches ReplayLog before X's replayed messages are handled; S1: after (both happen in production)
        y0 = run("Y0", ybase + ["conn A", f"replay {T + 1000100} A"] + sh)
        y1 = run("Y1", ybase + ["conn A"] + sh + [f"replay {T + 1000100} A", "disc A", f"timer {T + 9000000}", "conn A",
                                                  f"replay {T + 20000000} A"])
        got0 = set(replay_out(y0)) & logged
        got1 = (set(replay_out(y1, 0)) | set(replay_out(y1, 1))) & logged
        res.extra["two_node"] = {"x_replay_queue": x_items, "y_logged": sorted(logged), "delivered_if_y_replays_first": sorted(got0),
                                 "delivered_if_x_replay_is_handled_first": sorted(got1)}
        res.evaluations += len(x) + len(y0) + len(y1)
        if got0 != logged or got1 != logged:
            kind = "setpos_from_peer_replay" if (got0 == logged and n_setpos > 0 and
                                                 all(o.startswith(("recv", "ack")) for o in sh)) else "other"
            res.spec_failures.append(runner.Finding(
                "spec", f"spec:{self.prop}:two_node_loss", x + y1,      # case 1: node X; case 2: node Y, X's queue handled before Y's own ReplayLog
                {"lost": sorted(logged - got1), "lost_when_y_first": sorted(logged - got0)}, {"kind": kind}))

    def replay(self, path, harness, driver):
        import json
        data = json.load(open(path))
        if str(data.get("what", "")).endswith("two_node_loss"):
            res = runner.Result()
            self.two_node(res, harness)
            print(json.dumps(res.extra["two_node"], indent=1))
            return not res.spec_failures
        return super().replay(path, harness, driver)

    def matches_known(self, entry, finding):
        fn = CLASSIFIERS.get(entry.get("classifier"))
        if fn is None or finding.kind != "spec":
            return False
        clause = finding.what.split(":")[2] if finding.what.count(":") >= 2 else ""
        kind = finding.classifier_data.get("kind", "")
        lines = [l for l in finding.case_lines if l.strip()]
        try:
            if fn is equal_stamp_witness:
                return bool(fn(clause, lines))
            # F-C12c: the in-replay confirmation itself, or its consequence between two nodes
            return bool(replay_setpos_witness(clause, lines, kind or "replay_file_name") or two_node_witness(clause, lines, kind))
        except (ValueError, IndexError, KeyError):
            return False


CHECK = C12()

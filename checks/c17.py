"""C17 — runtime objects: all-or-nothing, faithful creation; values cannot inject config.  DESIGN.md §2 C17."""
import re
import decimal
from decimal import Decimal

decimal.getcontext().prec = 3000

from vlib import core, runner
from .base import StdCheck


# ---- the harness's `enc` value encoding --------------------------------------------------------
def dec_v(s, i=0):
    c = s[i]
    if c in "ztf":
        return {"z": None, "t": True, "f": False}[c], i + 1
    if c == "n":
        j = s.index(";", i)
        return ("n", s[i + 1:j]), j + 1
    if c == "s":
        j = s.index(";", i)
        return bytes.fromhex(s[i + 1:j]), j + 1
    if c in "ad":
        j = s.index(":", i)
        n = int(s[i + 1:j])
        i = j + 1
        out = []
        for _ in range(n):
            if c == "d":
                j = s.index(";", i)
                k = bytes.fromhex(s[i + 1:j])
                v, i = dec_v(s, j + 1)
                out.append((k, v))
            else:
                v, i = dec_v(s, i)
                out.append(v)
        return (c, out), i
    raise ValueError(s[i:i + 20])


def enc_v(v):
    if v is None:
        return "z"
    if v is True:
        return "t"
    if v is False:
        return "f"
    if isinstance(v, bytes):
        return "s" + v.hex() + ";"
    tag, x = v
    if tag == "n":
        return "n" + x + ";"
    if tag == "a":
        return "a%d:" % len(x) + "".join(enc_v(e) for e in x)
    return "d%d:" % len(x) + "".join("k" + k.hex() + ";" + enc_v(e) for k, e in x)


def walk(v, fn_str, fn_num, fn_key, top=True):
    """rebuild a value applying the three repair functions (keys of the top-level dictionary are left alone)"""
    if isinstance(v, bytes):
        return fn_str(v)
    if isinstance(v, tuple):
        tag, x = v
        if tag == "n":
            return ("n", fn_num(x))
        if tag == "a":
            return ("a", [walk(e, fn_str, fn_num, fn_key, False) for e in x])
        return ("d", [((k if top else fn_key(k)), walk(e, fn_str, fn_num, fn_key, False)) for k, e in x])
    return v


def exact(x):
    """exact decimal expansion of the double nearest to the decimal text x, in the harness's canonical form"""
    d = Decimal(float(x))
    t = format(d, "f")
    if "." in t:
        t = t.rstrip("0").rstrip(".")
    return "0" if t in ("-0", "") else t


def repair_num(x):
    return exact(format(Decimal(x).quantize(Decimal("0.000001")), "f"))


# hazards of the findings that are still open (F-C17c..g are fixed: nothing of them is repaired, classified or suppressed); F-C17c (917b518), F-C17d (d511a4f) and F-C17e (86ebd6a) are fixed: nothing is repaired or
# suppressed for them, a recurrence is a plain VIOLATION
# F-C17h (request body without "attrs": null dereference) is fixed by a049be8: the driver still tags such a crash (grouping), nothing is classified
# F-C17j (cascade went on after the deletion of a dependent was aborted) is fixed by 0ce9ca7: nothing is repaired or classified for it
# F-C17k (rolled-back Service left in its host's service map) has its own classifier: _rolled_back_service
HAZ = {"F-C17a": "num", "F-C17b": "nul", "F-C17i": "start"}
BAD_LOG_DIR = b"/nonexistent-c17/"


# Harmless rewrites of the anchored code that must NOT raise an alarm (patches: corpus/C17/negative_controls/*.diff, built as swapped
# object files and run through the whole flow with corpus/C17/negative_controls/{make_variants,build_variant,run_flow}.py; all exit 0
# at seeds 1 and 42).  corpus/C17/seeded_changes/*.diff are the six seeded defects the same flow must (and does) report.
NEGATIVE_CONTROLS = [
    "nc1_formatting: ConfigWriter indents with four spaces, writes `key=value`, `[a,b]` without blanks, two blanks before `{`; CreateObjectConfig ends the text with two line breaks",
    "nc2_refactor: CreateObjectConfig/CreateObject/DeleteObject(Helper) with renamed locals, an extracted error-collection helper, reordered independent statements, "
    "guards respelled (nested ifs, early return instead of negated test)",
    "nc3_messages: every error and log message text of configobjectutility.cpp and ConfigWriter's exception text reworded",
    "nc4_order: nested dictionaries written last-to-first, `version` written first in the object body, dependents deleted last-to-first with an extra counter, "
    "independent statements of CreateObjectConfig swapped",
    "nc5_equivalent_writer: EscapeIcingaString as one per-character switch, identifier test as a hand-written loop, EmitNumber via snprintf(\"%.6f\"), EmitValue's type tests reordered",
]


class C17(StdCheck):
    prop = "C17"
    required_theorems = ["string_emit_lex_roundtrip", "string_nul_counterexample", "number_emit_denotes_round6",
                         "faithful_number_partial", "number_precision_counterexample",
                         "emit_parse_roundtrip", "no_injection", "create_config_roundtrip", "faithful_attributes_partial",
                         "emit_parse_roundtrip_witness", "lexer_keyword_key_roundtrip", "lexer_keywords_known_to_writer", "bare_key_is_identifier_witness",
                         "create_all_or_nothing_partial", "activate_exception_counterexample", "rolled_back_service_resolvable_counterexample",
                         "delete_removes_object_and_file", "deleted_service_unresolvable_regression", "cyclic_cascade_delete_regression", "refuse_non_api", "cascade_only_when_asked", "unique_names",
                         "delete_only_removes", "cascade_removes_children", "cascade_success_complete", "failed_delete_keeps_target", "cascade_aborted_dependent_regression",
                         "aborted_delete_then_retry", "items_owned_invariant", "create_all_or_nothing_reachable", "generated_children_not_runtime",
                         "cascade_only_dependents", "noncascading_delete_meets_spec", "aborted_delete_meets_spec", "noncascading_delete_meets_spec_along_run",
                         "escapeName_injective", "confPath_injective", "confPath_in_type_dir"]
    technique = ("Lean 4 proof over a hand-written model of ConfigWriter, the config lexer/parser fragment and the create/delete state machine "
                 "(emit/parse round trip by mutual induction over the value tree and the statement list, invariant by induction over "
                 "operation sequences, kernel-evaluated counterexamples for the open defects); correspondence by differential execution of "
                 "the real CreateObjectConfig/CreateObject/DeleteObject (directly and through PUT/DELETE /v1/objects via "
                 "HttpHandler::ProcessRequest) in a scratch data directory, byte-exact comparison of the generated configuration text with "
                 "the model's, and the model's parser reading the real text")
    level_text = ("Machine-checked: every NUL-free byte string survives EmitString -> string-literal lexer unchanged with the literal ending "
                  "exactly at the writer's closing quote; numbers are written rounded to six fractional digits (exact iff <= 6 digits); create is "
                  "all-or-nothing for every injected fault except an exception out of ActivateItems (F-C17i: reproduced on the real code, a FileLogger "
                  "whose Start() throws stays behind), in every reachable state without a hypothesis on the registered items (items_owned_invariant: every item "
                  "belongs to a registered object along every operation sequence; create_all_or_nothing_reachable); a delete that reports success has removed object, "
                  "item and file - for every state and whatever deactivation the environment answers with an exception (the catch block of DeleteObjectHelper is "
                  "modelled: fault thr, deactivateObj); delete refuses non-API objects, removes nothing else without "
                  "cascade, only ever removes (names, items, files afterwards are sub-lists of those before, every remaining object is the one it was, at most "
                  "deactivated; cycles and aborted deletions included); the loop over the dependents passes a dependent's failure on (0ce9ca7, model deleteChildren): a cascade "
                  "that reports success has removed the object and every direct dependent, whatever fault occurred (cascade_success_complete, no exception any more: F-C17j is fixed, "
                  "cascade_aborted_dependent_regression), without a fault it always succeeds (cascade_removes_children), and a delete that reports failure - refused or aborted in the "
                  "object or in any dependent - has kept the object (failed_delete_keeps_target, all states, graphs and faults; the transitive "
                  "closure is demanded of the implementation's trace by spec clause cascade_complete, not proved of the model); a deletion aborted by an exception "
                  "leaves the object whole and the next delete of it succeeds and removes object, item and file (aborted_delete_then_retry, all states); whatever a delete "
                  "removes is the object or something that depends on it through the reflexive-transitive closure of the dependency edges (cascade_only_dependents, all states, "
                  "all graphs, with and without faults). "
                  "First theorems ABOUT THE SPEC PREDICATE: specDelete evaluated on the model's own step accepts every non-cascading delete (absent, non-API, refused "
                  "because of dependents, successful) in every state with unique names and distinct files, hence along every operation sequence "
                  "(noncascading_delete_meets_spec, noncascading_delete_meets_spec_along_run), and the aborted delete (aborted_delete_meets_spec); it rejects the trace "
                  "of a retry that reports success and removes nothing (example). what apply rules generate as a side effect of a create never carries "
                  "the _api package; names stay unique over every create/delete sequence. EscapeName is injective and slash-free for every name, "
                  "hence the file of a runtime object is distinct for distinct names of one type and lies directly in the type's directory "
                  "(spec clause file_where_expected compares the real file path with the modelled ComputeNewObjectConfigPath). "
                  "emit_parse_roundtrip/no_injection: for every type, name, template list and attribute dictionary (NUL-free strings; no other condition: every "
                  "lexer keyword, incl. `in` and `debugger` since 3c83e1d, is in the writer's list, lexer_keywords_known_to_writer) the generated text parses back to exactly one object statement assigning exactly the supplied paths; "
                  "the same structure check runs on every real generated text, also of creates that fail afterwards (spec clause structure_preserved). The same specification predicate "
                  "is evaluated on the implementation's own observations (objects with content hashes and whether a lookup by name finds them, items, "
                  "files, global namespace hash): besides the clauses above, registered_by_name (every listed object is found under its name, "
                  "before and after every call, failed ones included), generated_not_runtime (side effects of a create are not runtime objects), "
                  "refuse_non_api judged by the HISTORY (an object no create call produced must be refused), cascade_complete (every transitive "
                  "dependent, and the item and file of every object that went, are gone), kept_object_keeps_item_and_file (an object that stayed - the call failed, "
                  "was aborted, or was about another object - still has its item and file), no_crash. Deletes are also driven with an injected fault (an "
                  "OnActiveChanged subscriber throwing on the deactivation of the target or of a dependent, directly and through DELETE /v1/objects), mostly followed "
                  "by a retry: the fault excuses a reported failure and the deactivated state of the object it hit, nothing else.")
    level_note = ("Trusted: Lean kernel (+ propext, Classical.choice, Quot.sound), harness/driver, libc printf/strtod (the driver recomputes "
                  "nearest-binary64), the outcome of compile/commit/activate is an oracle input (fault injection in the model; a failed call that "
                  "left the object behind is replayed as the fault activateThrows; which deactivation throws during a delete is chosen by the generator and "
                  "replayed in the model as thr). The open findings F-C17a (number precision), F-C17b (NUL), "
                  "F-C17i (Start() throws: committed object left behind) and F-C17k (a Service rolled back by the name check stays in its "
                  "host's service map: classified only for clause dangling_parent after a failed create of a Service with a surplus name part) are reported as KNOWN-FINDING by a classifier that repairs the recorded hazard in the "
                  "minimised witness and re-runs it: only failures that vanish after the repair are attributed to the finding; the driver tags the "
                  "clause with the hazards present in the failing line so that a known hazard cannot use up the per-clause shrink budget of an "
                  "unrelated failure. The harness does not read message texts "
                  "or private members; five negative controls (NEGATIVE_CONTROLS in checks/c17.py: formatting, refactoring, message texts, "
                  "iteration order, equivalent re-implementations of the writer) pass the whole flow, six seeded defects are reported.")
    trusted_base = [
        "not modelled (their outcome is read from the implementation): type validation, template import, apply rules, cluster sync of created objects; the HTTP handlers are driven (about 13 % of the operations, incl. request bodies without an attrs member) but not modelled beyond the calls they make",
        "the model's object list is its registry: the lookup-by-name consistency (registered_by_name) is checked on the implementation's trace only; the SHA1 of a truncated Comment/Downtime file name is an oracle (prefix, length and alphabet are checked)",
        "the specification-on-model theorems cover non-cascading and aborted deletes only: no theorem evaluates specCreate or a cascading specDelete on the model (distinct files of distinct runtime objects is a hypothesis there, justified by confPath_injective, not an invariant proved along run)",
        "l_DeletionInProgress is modelled as a parameter of the recursion (released at every exit by construction); a guard that outlives the call is caught on the implementation's trace (retry after an aborted delete), not excluded by a theorem about the C++ code",
        "never driven: ConfigUpdateObject/ConfigDeleteObject (cluster peers), Comment::AddComment/Downtime::AddDowntime, DELETE with a filter / several targets",
        "parameters: glibc printf(\"%.6f\") = exact round-half-even, strtod = nearest binary64 (recomputed in the driver)",
        "the model's parser accepts exactly the writer's fragment; any other token makes it reject (counted as structure_preserved failure)",
    ]
    assumptions = ["DependencyGraph parents/children of a created object are read from the implementation (oracle)",
                   "the ORDER in which a cascade visits the dependents (DependencyGraph::GetChildren) is an oracle: it shows only when a fault ends the loop "
                   "(0ce9ca7), the driver lets the model visit first the dependents the implementation removed (the theorems hold for every order)",
                   "delete faults: WHICH deactivation throws is chosen by the generator (an OnActiveChanged subscriber connected by the harness for the duration of the call); "
                   "that an aborted deactivation has untracked the object's references (generated Stop()) is mirrored by the driver's book-keeping of dependency edges (an inactive object is nobody's dependent)",
                   "file path of a created object: read from the implementation and compared with the modelled path (spec clause file_where_expected); "
                   "create_all_or_nothing_partial still takes the path as a parameter with the hypothesis that it is fresh (confPath_injective is the reason it is, "
                   "the invariant linking files to live objects along run is not proved)"]
    rule = ("seeded generator: cases of 4-10 create/delete operations over 18 object types and a small name pool (duplicates, dependents, "
            "cascade, static non-API objects, invalid attributes, ignore_on_error, templates, composite names with a surplus '!' part that collide with an "
            "existing object, FileLogger (a type whose Start() can throw), request bodies without attrs, deletes aborted by a throwing OnActiveChanged subscriber (target or dependent) followed by a retry); names/keys/values biased towards quotes, "
            "backslashes, line breaks, comment markers, }}}, $, keyword-like/dotted/multi-line keys, NUL, deep nesting, numbers of all magnitudes. "
            "evaluations = create + delete calls; non-trivial case = one that exercised a refused or cascading delete")

    def correspondence(self, tier, seed, harness, driver):
        self._hd = (harness, driver)
        return super().correspondence(tier, seed, harness, driver)

    # ---- known findings ----------------------------------------------------------------------
    def _repaired(self, line):
        """the create line with every recorded hazard repaired; returns (line, set of hazards that were present)"""
        w = line.split(" | ")[0].split()
        if len(w) > 2 and w[0] == "X":      # the operation the worker died in
            w = w[2:]
        if len(w) not in (6, 7) or w[0] != "create":
            return " ".join(w), set()
        found = set()
        tm, _ = dec_v(w[4])
        at, _ = dec_v(w[5])
        if len(w) == 7 and w[6] == "httpn":
            # F-C17h: the same request with an (empty) "attrs" member
            found.add("noattrs")
            w[6] = "http"
        if w[1] == "FileLogger":
            # F-C17i: the same logger writing to a file that can be opened
            fixed_at = []
            for k, v in at[1]:
                if k == b"path" and isinstance(v, bytes) and v.startswith(BAD_LOG_DIR):
                    found.add("start")
                    v = b"/dev/null"
                fixed_at.append((k, v))
            at = ("d", fixed_at)

        def fs(b):
            if b"\0" in b:
                found.add("nul")
            return b.replace(b"\0", b"")

        def fn(x):
            r = repair_num(x)
            if r != x:
                found.add("num")
            return r

        def fk(k):
            return fs(k)

        if w[2] != "-":
            nm = fs(bytes.fromhex(w[2]))
            w[2] = nm.hex() if nm else "-"
        at2 = walk(at, fs, fn, fk)
        at2 = ("d", [(fs(k), v) for k, v in at2[1]])
        good_t = [fs(t) if isinstance(t, bytes) else t for t in tm[1]]
        w[4] = enc_v(("a", good_t))
        w[5] = enc_v(at2)
        return " ".join(w), found

    def _rolled_back_service(self, lines):
        """F-C17k: the case holds a FAILED create of a Service with a surplus '!' part, and dangling_parent vanishes when that
        part is dropped (the service then exists).  Nothing else is repaired; any other dangling parent stays a VIOLATION."""
        fixed, hit = [], False
        for l in lines:
            op, _, obs = l.partition(" | ")
            w = op.split()
            if len(w) >= 6 and w[0] == "create" and w[1] == "Service" and w[2] != "-":
                try:
                    parts = bytes.fromhex(w[2]).split(b"!")
                except ValueError:
                    parts = []
                if len(parts) > 2 and (not obs or " ok=0 " in " " + obs + " "):
                    hit = True
                    w[2] = b"!".join(parts[:2]).hex()
            if len(w) > 2 and w[0] == "X":
                w = w[2:]
            fixed.append(" ".join(w))
        if not hit:
            return False
        harness, driver = self._hd
        return not self._fails(harness, driver, fixed, "SPECFAIL", "clause=dangling_parent")

    def matches_known(self, entry, finding):
        if finding.kind != "spec":
            return False
        m = re.match(r"spec:C17:([a-z_]+)((?:\+[a-z]+)*)$", finding.what)
        if not m:
            return False
        base = m.group(1)
        lines = [l for l in finding.case_lines if l.split(" ")[0] in ("C", "create", "delete", "X")]
        if entry["id"] == "F-C17k":
            return base == "dangling_parent" and self._rolled_back_service(lines)
        haz = HAZ.get(entry["id"])
        if not haz:
            return False
        fixed, present = [], set()
        for l in lines:
            r, f = self._repaired(l)
            fixed.append(r)
            present |= f
        if haz not in present:
            return False
        harness, driver = self._hd
        # the failure must vanish once the recorded hazards are repaired: anything that remains is NOT known
        return not self._fails(harness, driver, fixed, "SPECFAIL", "clause=" + base)


CHECK = C17()

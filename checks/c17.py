"""C17 — runtime objects: all-or-nothing, faithful creation; values cannot inject config.  DESIGN.md §2 C17."""
import re
import decimal
from decimal import Decimal

decimal.getcontext().prec = 3000

from vlib import core, runner
from .base import StdCheck


# ---- the harness's `enc` value encoding --------------------------------------------------------
def dec_v(s, i=0):
    c = s[i]
    if c in "ztf":
        return {"z": None, "t": True, "f": False}[c], i + 1
    if c == "n":
        j = s.index(";", i)
        return ("n", s[i + 1:j]), j + 1
    if c == "s":
        j = s.index(";", i)
        return bytes.fromhex(s[i + 1:j]), j + 1
    if c in "ad":
        j = s.index(":", i)
        n = int(s[i + 1:j])
        i = j + 1
        out = []
        for _ in range(n):
            if c == "d":
                j = s.index(";", i)
                k = bytes.fromhex(s[i + 1:j])
                v, i = dec_v(s, j + 1)
                out.append((k, v))
            else:
                v, i = dec_v(s, i)
                out.append(v)
        return (c, out), i
    raise ValueError(s[i:i + 20])


def enc_v(v):
    if v is None:
        return "z"
    if v is True:
        return "t"
    if v is False:
        return "f"
    if isinstance(v, bytes):
        return "s" + v.hex() + ";"
    tag, x = v
    if tag == "n":
        return "n" + x + ";"
    if tag == "a":
        return "a%d:" % len(x) + "".join(enc_v(e) for e in x)
    return "d%d:" % len(x) + "".join("k" + k.hex() + ";" + enc_v(e) for k, e in x)


def walk(v, fn_str, fn_num, fn_key, top=True):
    """rebuild a value applying the three repair functions (keys of the top-level dictionary are left alone)"""
    if isinstance(v, bytes):
        return fn_str(v)
    if isinstance(v, tuple):
        tag, x = v
        if tag == "n":
            return ("n", fn_num(x))
        if tag == "a":
            return ("a", [walk(e, fn_str, fn_num, fn_key, False) for e in x])
        return ("d", [((k if top else fn_key(k)), walk(e, fn_str, fn_num, fn_key, False)) for k, e in x])
    return v


def exact(x):
    """exact decimal expansion of the double nearest to the decimal text x, in the harness's canonical form"""
    d = Decimal(float(x))
    t = format(d, "f")
    if "." in t:
        t = t.rstrip("0").rstrip(".")
    return "0" if t in ("-0", "") else t


def repair_num(x):
    return exact(format(Decimal(x).quantize(Decimal("0.000001")), "f"))


# hazards of the findings that are still open (F-C17c..g are fixed: nothing of them is repaired, classified or suppressed); F-C17c (917b518), F-C17d (d511a4f) and F-C17e (86ebd6a) are fixed: nothing is repaired or
# suppressed for them, a recurrence is a plain VIOLATION
HAZ = {"F-C17a": "num", "F-C17b": "nul"}


# Harmless rewrites of the anchored code that must NOT raise an alarm (patches: corpus/C17/negative_controls/*.diff, built as swapped
# object files and run through the whole flow with corpus/C17/negative_controls/{make_variants,build_variant,run_flow}.py; all exit 0
# at seeds 1 and 42).  corpus/C17/seeded_changes/*.diff are the six seeded defects the same flow must (and does) report.
NEGATIVE_CONTROLS = [
    "nc1_formatting: ConfigWriter indents with four spaces, writes `key=value`, `[a,b]` without blanks, two blanks before `{`; CreateObjectConfig ends the text with two line breaks",
    "nc2_refactor: CreateObjectConfig/CreateObject/DeleteObject(Helper) with renamed locals, an extracted error-collection helper, reordered independent statements, "
    "guards respelled (nested ifs, early return instead of negated test)",
    "nc3_messages: every error and log message text of configobjectutility.cpp and ConfigWriter's exception text reworded",
    "nc4_order: nested dictionaries written last-to-first, `version` written first in the object body, dependents deleted last-to-first with an extra counter, "
    "independent statements of CreateObjectConfig swapped",
    "nc5_equivalent_writer: EscapeIcingaString as one per-character switch, identifier test as a hand-written loop, EmitNumber via snprintf(\"%.6f\"), EmitValue's type tests reordered",
]


class C17(StdCheck):
    prop = "C17"
    required_theorems = ["string_emit_lex_roundtrip", "string_nul_counterexample", "number_emit_denotes_round6",
                         "faithful_number_partial", "number_precision_counterexample",
                         "emit_parse_roundtrip", "no_injection", "create_config_roundtrip", "faithful_attributes_partial",
                         "emit_parse_roundtrip_witness", "lexer_keyword_key_rejected", "bare_key_is_identifier_witness",
                         "create_all_or_nothing_partial", "activate_exception_counterexample",
                         "delete_removes_object_and_file", "deleted_service_unresolvable_regression", "cyclic_cascade_delete_regression", "refuse_non_api", "cascade_only_when_asked", "unique_names"]
    technique = ("Lean 4 proof over a hand-written model of ConfigWriter, the config lexer/parser fragment and the create/delete state machine "
                 "(emit/parse round trip by mutual induction over the value tree and the statement list, invariant by induction over "
                 "operation sequences, kernel-evaluated counterexamples for the open defects); correspondence by differential execution of "
                 "the real CreateObjectConfig/CreateObject/DeleteObject (directly and through PUT/DELETE /v1/objects via "
                 "HttpHandler::ProcessRequest) in a scratch data directory, byte-exact comparison of the generated configuration text with "
                 "the model's, and the model's parser reading the real text")
    level_text = ("Machine-checked: every NUL-free byte string survives EmitString -> string-literal lexer unchanged with the literal ending "
                  "exactly at the writer's closing quote; numbers are written rounded to six fractional digits (exact iff <= 6 digits); create is "
                  "all-or-nothing for every injected fault except an exception out of ActivateItems; delete removes object, item and file, "
                  "refuses non-API objects, removes nothing else without cascade; names stay unique over every create/delete sequence. "
                  "emit_parse_roundtrip/no_injection: for every type, name, template list and attribute dictionary (NUL-free strings, nested keys "
                  "other than `in`/`debugger`) the generated text parses back to exactly one object statement assigning exactly the supplied paths; "
                  "the same structure check runs on every real generated text (spec clause structure_preserved). The same specification predicate "
                  "is evaluated on the implementation's own observations (objects with content hashes, items, files, global namespace hash).")
    level_note = ("Trusted: Lean kernel (+ propext, Classical.choice, Quot.sound), harness/driver, libc printf/strtod (the driver recomputes "
                  "nearest-binary64), the outcome of compile/commit/activate is an oracle input (fault injection in the model). Known findings "
                  "F-C17a..e are reported as KNOWN-FINDING by a classifier that repairs the recorded hazard in the minimised witness and "
                  "re-runs it: only failures that vanish after the repair are attributed to the finding. The harness does not read message texts "
                  "or private members; five negative controls (NEGATIVE_CONTROLS in checks/c17.py: formatting, refactoring, message texts, "
                  "iteration order, equivalent re-implementations of the writer) pass the whole flow, six seeded defects are reported.")
    trusted_base = [
        "modelled, not verified: type validation, template import, apply rules, cluster sync of created objects; the HTTP handlers are driven (about 12 % of the operations) but not modelled beyond the calls they make",
        "parameters: glibc printf(\"%.6f\") = exact round-half-even, strtod = nearest binary64 (recomputed in the driver)",
        "the model's parser accepts exactly the writer's fragment; any other token makes it reject (counted as structure_preserved failure)",
    ]
    assumptions = ["DependencyGraph parents of a created object are read from the implementation (oracle)",
                   "file path of a created object is read from the implementation (oracle)"]
    rule = ("seeded generator: cases of 4-10 create/delete operations over 17 object types and a small name pool (duplicates, dependents, "
            "cascade, static non-API objects, invalid attributes, ignore_on_error, templates); names/keys/values biased towards quotes, "
            "backslashes, line breaks, comment markers, }}}, $, keyword-like/dotted/multi-line keys, NUL, deep nesting, numbers of all magnitudes. "
            "evaluations = create + delete calls; non-trivial case = one that exercised a refused or cascading delete")

    def correspondence(self, tier, seed, harness, driver):
        self._hd = (harness, driver)
        return super().correspondence(tier, seed, harness, driver)

    # ---- known findings ----------------------------------------------------------------------
    def _repaired(self, line):
        """the create line with every recorded hazard repaired; returns (line, set of hazards that were present)"""
        w = line.split(" | ")[0].split()
        if len(w) not in (6, 7) or w[0] != "create":
            return line.split(" | ")[0], set()
        found = set()
        tm, _ = dec_v(w[4])
        at, _ = dec_v(w[5])

        def fs(b):
            if b"\0" in b:
                found.add("nul")
            return b.replace(b"\0", b"")

        def fn(x):
            r = repair_num(x)
            if r != x:
                found.add("num")
            return r

        def fk(k):
            return fs(k)

        at2 = walk(at, fs, fn, fk)
        at2 = ("d", [(fs(k), v) for k, v in at2[1]])
        good_t = [fs(t) if isinstance(t, bytes) else t for t in tm[1]]
        w[4] = enc_v(("a", good_t))
        w[5] = enc_v(at2)
        return " ".join(w), found

    def matches_known(self, entry, finding):
        if finding.kind != "spec":
            return False
        m = re.match(r"spec:C17:([a-z_]+)((?:\+[a-z]+)*)$", finding.what)
        if not m:
            return False
        base = m.group(1)
        lines = [l for l in finding.case_lines if l.split(" ")[0] in ("C", "create", "delete", "X")]
        haz = HAZ.get(entry["id"])
        if not haz:
            return False
        fixed, present = [], set()
        for l in lines:
            r, f = self._repaired(l)
            fixed.append(r)
            present |= f
        if haz not in present:
            return False
        harness, driver = self._hd
        # the failure must vanish once the recorded hazards are repaired: anything that remains is NOT known
        return not self._fails(harness, driver, fixed, "SPECFAIL", "clause=" + base)


CHECK = C17()
